
(** val implb : bool -> bool -> bool **)

let implb b1 b2 =
  if b1 then b2 else true

(** val negb : bool -> bool **)

let negb = function
| true -> false
| false -> true

type nat =
| O
| S of nat

(** val fst : ('a1 * 'a2) -> 'a1 **)

let fst = function
| (x, _) -> x

(** val app : 'a1 list -> 'a1 list -> 'a1 list **)

let rec app l m =
  match l with
  | [] -> m
  | a :: l1 -> a :: (app l1 m)

module Coq__1 = struct
 (** val add : nat -> nat -> nat **)
 let rec add n m =
   match n with
   | O -> m
   | S p -> S (add p m)
end
include Coq__1

(** val sub : nat -> nat -> nat **)

let rec sub n m =
  match n with
  | O -> n
  | S k -> (match m with
            | O -> n
            | S l -> sub k l)

(** val eqb : bool -> bool -> bool **)

let eqb b1 b2 =
  if b1 then b2 else if b2 then false else true

module Nat =
 struct
  (** val eqb : nat -> nat -> bool **)

  let rec eqb n m =
    match n with
    | O -> (match m with
            | O -> true
            | S _ -> false)
    | S n' -> (match m with
               | O -> false
               | S m' -> eqb n' m')

  (** val leb : nat -> nat -> bool **)

  let rec leb n m =
    match n with
    | O -> true
    | S n' -> (match m with
               | O -> false
               | S m' -> leb n' m')

  (** val ltb : nat -> nat -> bool **)

  let ltb n m =
    leb (S n) m
 end

(** val forallb : ('a1 -> bool) -> 'a1 list -> bool **)

let rec forallb f = function
| [] -> true
| a :: l0 -> (&&) (f a) (forallb f l0)

(** val seq : nat -> nat -> nat list **)

let rec seq start = function
| O -> []
| S len0 -> start :: (seq (S start) len0)

type positive =
| XI of positive
| XO of positive
| XH

type z =
| Z0
| Zpos of positive
| Zneg of positive

module Pos =
 struct
  (** val succ : positive -> positive **)

  let rec succ = function
  | XI p -> XO (succ p)
  | XO p -> XI p
  | XH -> XO XH

  (** val add : positive -> positive -> positive **)

  let rec add x y =
    match x with
    | XI p ->
      (match y with
       | XI q -> XO (add_carry p q)
       | XO q -> XI (add p q)
       | XH -> XO (succ p))
    | XO p ->
      (match y with
       | XI q -> XI (add p q)
       | XO q -> XO (add p q)
       | XH -> XI p)
    | XH -> (match y with
             | XI q -> XO (succ q)
             | XO q -> XI q
             | XH -> XO XH)

  (** val add_carry : positive -> positive -> positive **)

  and add_carry x y =
    match x with
    | XI p ->
      (match y with
       | XI q -> XI (add_carry p q)
       | XO q -> XO (add_carry p q)
       | XH -> XI (succ p))
    | XO p ->
      (match y with
       | XI q -> XO (add_carry p q)
       | XO q -> XI (add p q)
       | XH -> XO (succ p))
    | XH ->
      (match y with
       | XI q -> XI (succ q)
       | XO q -> XO (succ q)
       | XH -> XI XH)

  (** val pred_double : positive -> positive **)

  let rec pred_double = function
  | XI p -> XI (XO p)
  | XO p -> XI (pred_double p)
  | XH -> XH

  (** val mul : positive -> positive -> positive **)

  let rec mul x y =
    match x with
    | XI p -> add y (XO (mul p y))
    | XO p -> XO (mul p y)
    | XH -> y

  (** val eqb : positive -> positive -> bool **)

  let rec eqb p q =
    match p with
    | XI p0 -> (match q with
                | XI q0 -> eqb p0 q0
                | _ -> false)
    | XO p0 -> (match q with
                | XO q0 -> eqb p0 q0
                | _ -> false)
    | XH -> (match q with
             | XH -> true
             | _ -> false)

  (** val iter_op : ('a1 -> 'a1 -> 'a1) -> positive -> 'a1 -> 'a1 **)

  let rec iter_op op p a =
    match p with
    | XI p0 -> op a (iter_op op p0 (op a a))
    | XO p0 -> iter_op op p0 (op a a)
    | XH -> a

  (** val to_nat : positive -> nat **)

  let to_nat x =
    iter_op Coq__1.add x (S O)

  (** val of_succ_nat : nat -> positive **)

  let rec of_succ_nat = function
  | O -> XH
  | S x -> succ (of_succ_nat x)
 end

module Z =
 struct
  (** val double : z -> z **)

  let double = function
  | Z0 -> Z0
  | Zpos p -> Zpos (XO p)
  | Zneg p -> Zneg (XO p)

  (** val succ_double : z -> z **)

  let succ_double = function
  | Z0 -> Zpos XH
  | Zpos p -> Zpos (XI p)
  | Zneg p -> Zneg (Pos.pred_double p)

  (** val pred_double : z -> z **)

  let pred_double = function
  | Z0 -> Zneg XH
  | Zpos p -> Zpos (Pos.pred_double p)
  | Zneg p -> Zneg (XI p)

  (** val pos_sub : positive -> positive -> z **)

  let rec pos_sub x y =
    match x with
    | XI p ->
      (match y with
       | XI q -> double (pos_sub p q)
       | XO q -> succ_double (pos_sub p q)
       | XH -> Zpos (XO p))
    | XO p ->
      (match y with
       | XI q -> pred_double (pos_sub p q)
       | XO q -> double (pos_sub p q)
       | XH -> Zpos (Pos.pred_double p))
    | XH ->
      (match y with
       | XI q -> Zneg (XO q)
       | XO q -> Zneg (Pos.pred_double q)
       | XH -> Z0)

  (** val add : z -> z -> z **)

  let add x y =
    match x with
    | Z0 -> y
    | Zpos x' ->
      (match y with
       | Z0 -> x
       | Zpos y' -> Zpos (Pos.add x' y')
       | Zneg y' -> pos_sub x' y')
    | Zneg x' ->
      (match y with
       | Z0 -> x
       | Zpos y' -> pos_sub y' x'
       | Zneg y' -> Zneg (Pos.add x' y'))

  (** val mul : z -> z -> z **)

  let mul x y =
    match x with
    | Z0 -> Z0
    | Zpos x' ->
      (match y with
       | Z0 -> Z0
       | Zpos y' -> Zpos (Pos.mul x' y')
       | Zneg y' -> Zneg (Pos.mul x' y'))
    | Zneg x' ->
      (match y with
       | Z0 -> Z0
       | Zpos y' -> Zneg (Pos.mul x' y')
       | Zneg y' -> Zpos (Pos.mul x' y'))

  (** val eqb : z -> z -> bool **)

  let eqb x y =
    match x with
    | Z0 -> (match y with
             | Z0 -> true
             | _ -> false)
    | Zpos p -> (match y with
                 | Zpos q -> Pos.eqb p q
                 | _ -> false)
    | Zneg p -> (match y with
                 | Zneg q -> Pos.eqb p q
                 | _ -> false)

  (** val to_nat : z -> nat **)

  let to_nat = function
  | Zpos p -> Pos.to_nat p
  | _ -> O

  (** val of_nat : nat -> z **)

  let of_nat = function
  | O -> Z0
  | S n0 -> Zpos (Pos.of_succ_nat n0)
 end

type kind =
| KThread
| KCo

type unwst =
| UNone
| UPanic of nat
| UCancel

type outcome =
| ORun
| OOk of nat
| OPanic of nat
| OCancel

type jresult =
| ROk
| RPanic of nat
| RCancel

type rsn =
| RU
| RC

type pc =
| PNone
| PBody
| PDrop
| PJ0
| PW0
| PW1
| PW2
| PW3
| PPark
| PWW
| PT1
| PT2
| PEn
| PCk
| PRes
| PRet
| PF1
| PF2
| PF3
| PF4
| PDone

type cfg = { cdis : bool; cloop : bool; ctrans : bool }

(** val current : cfg **)

let current =
  { cdis = true; cloop = true; ctrans = true }

type st = { pcm : (nat -> pc); kindm : (nat -> kind); depthm : (nat -> nat);
            frm : (nat -> nat -> nat list); unwm : (nat -> unwst);
            cbitm : (nat -> bool); dism : (nat -> nat); jcm : (nat -> nat);
            jbm : (nat -> nat); jexpm : (nat -> bool);
            jresm : (nat -> jresult); awm : (nat -> nat);
            jstm : (nat -> bool); jwakem : (nat -> nat option);
            ipktm : (nat -> bool); pktm : (nat -> nat option);
            panm : (nat -> nat option); joinedm : (nat -> bool);
            handlem : (nat -> bool); parentm : (nat -> nat option);
            cdepthm : (nat -> nat); cleftm : (nat -> bool);
            cvalm : (nat -> nat); outm : (nat -> outcome);
            gotm : (nat -> nat); tkm : (nat -> bool); tokm : (nat -> bool);
            parkedm : (nat -> bool); reasonm : (nat -> rsn option);
            bownerm : (nat -> nat); nexta : nat; nextb : nat }

(** val set_pcm : st -> (nat -> pc) -> st **)

let set_pcm s v =
  { pcm = v; kindm = s.kindm; depthm = s.depthm; frm = s.frm; unwm = s.unwm;
    cbitm = s.cbitm; dism = s.dism; jcm = s.jcm; jbm = s.jbm; jexpm =
    s.jexpm; jresm = s.jresm; awm = s.awm; jstm = s.jstm; jwakem = s.jwakem;
    ipktm = s.ipktm; pktm = s.pktm; panm = s.panm; joinedm = s.joinedm;
    handlem = s.handlem; parentm = s.parentm; cdepthm = s.cdepthm; cleftm =
    s.cleftm; cvalm = s.cvalm; outm = s.outm; gotm = s.gotm; tkm = s.tkm;
    tokm = s.tokm; parkedm = s.parkedm; reasonm = s.reasonm; bownerm =
    s.bownerm; nexta = s.nexta; nextb = s.nextb }

(** val set_depthm : st -> (nat -> nat) -> st **)

let set_depthm s v =
  { pcm = s.pcm; kindm = s.kindm; depthm = v; frm = s.frm; unwm = s.unwm;
    cbitm = s.cbitm; dism = s.dism; jcm = s.jcm; jbm = s.jbm; jexpm =
    s.jexpm; jresm = s.jresm; awm = s.awm; jstm = s.jstm; jwakem = s.jwakem;
    ipktm = s.ipktm; pktm = s.pktm; panm = s.panm; joinedm = s.joinedm;
    handlem = s.handlem; parentm = s.parentm; cdepthm = s.cdepthm; cleftm =
    s.cleftm; cvalm = s.cvalm; outm = s.outm; gotm = s.gotm; tkm = s.tkm;
    tokm = s.tokm; parkedm = s.parkedm; reasonm = s.reasonm; bownerm =
    s.bownerm; nexta = s.nexta; nextb = s.nextb }

(** val set_frm : st -> (nat -> nat -> nat list) -> st **)

let set_frm s v =
  { pcm = s.pcm; kindm = s.kindm; depthm = s.depthm; frm = v; unwm = s.unwm;
    cbitm = s.cbitm; dism = s.dism; jcm = s.jcm; jbm = s.jbm; jexpm =
    s.jexpm; jresm = s.jresm; awm = s.awm; jstm = s.jstm; jwakem = s.jwakem;
    ipktm = s.ipktm; pktm = s.pktm; panm = s.panm; joinedm = s.joinedm;
    handlem = s.handlem; parentm = s.parentm; cdepthm = s.cdepthm; cleftm =
    s.cleftm; cvalm = s.cvalm; outm = s.outm; gotm = s.gotm; tkm = s.tkm;
    tokm = s.tokm; parkedm = s.parkedm; reasonm = s.reasonm; bownerm =
    s.bownerm; nexta = s.nexta; nextb = s.nextb }

(** val set_unwm : st -> (nat -> unwst) -> st **)

let set_unwm s v =
  { pcm = s.pcm; kindm = s.kindm; depthm = s.depthm; frm = s.frm; unwm = v;
    cbitm = s.cbitm; dism = s.dism; jcm = s.jcm; jbm = s.jbm; jexpm =
    s.jexpm; jresm = s.jresm; awm = s.awm; jstm = s.jstm; jwakem = s.jwakem;
    ipktm = s.ipktm; pktm = s.pktm; panm = s.panm; joinedm = s.joinedm;
    handlem = s.handlem; parentm = s.parentm; cdepthm = s.cdepthm; cleftm =
    s.cleftm; cvalm = s.cvalm; outm = s.outm; gotm = s.gotm; tkm = s.tkm;
    tokm = s.tokm; parkedm = s.parkedm; reasonm = s.reasonm; bownerm =
    s.bownerm; nexta = s.nexta; nextb = s.nextb }

(** val set_cbitm : st -> (nat -> bool) -> st **)

let set_cbitm s v =
  { pcm = s.pcm; kindm = s.kindm; depthm = s.depthm; frm = s.frm; unwm =
    s.unwm; cbitm = v; dism = s.dism; jcm = s.jcm; jbm = s.jbm; jexpm =
    s.jexpm; jresm = s.jresm; awm = s.awm; jstm = s.jstm; jwakem = s.jwakem;
    ipktm = s.ipktm; pktm = s.pktm; panm = s.panm; joinedm = s.joinedm;
    handlem = s.handlem; parentm = s.parentm; cdepthm = s.cdepthm; cleftm =
    s.cleftm; cvalm = s.cvalm; outm = s.outm; gotm = s.gotm; tkm = s.tkm;
    tokm = s.tokm; parkedm = s.parkedm; reasonm = s.reasonm; bownerm =
    s.bownerm; nexta = s.nexta; nextb = s.nextb }

(** val set_dism : st -> (nat -> nat) -> st **)

let set_dism s v =
  { pcm = s.pcm; kindm = s.kindm; depthm = s.depthm; frm = s.frm; unwm =
    s.unwm; cbitm = s.cbitm; dism = v; jcm = s.jcm; jbm = s.jbm; jexpm =
    s.jexpm; jresm = s.jresm; awm = s.awm; jstm = s.jstm; jwakem = s.jwakem;
    ipktm = s.ipktm; pktm = s.pktm; panm = s.panm; joinedm = s.joinedm;
    handlem = s.handlem; parentm = s.parentm; cdepthm = s.cdepthm; cleftm =
    s.cleftm; cvalm = s.cvalm; outm = s.outm; gotm = s.gotm; tkm = s.tkm;
    tokm = s.tokm; parkedm = s.parkedm; reasonm = s.reasonm; bownerm =
    s.bownerm; nexta = s.nexta; nextb = s.nextb }

(** val set_jcm : st -> (nat -> nat) -> st **)

let set_jcm s v =
  { pcm = s.pcm; kindm = s.kindm; depthm = s.depthm; frm = s.frm; unwm =
    s.unwm; cbitm = s.cbitm; dism = s.dism; jcm = v; jbm = s.jbm; jexpm =
    s.jexpm; jresm = s.jresm; awm = s.awm; jstm = s.jstm; jwakem = s.jwakem;
    ipktm = s.ipktm; pktm = s.pktm; panm = s.panm; joinedm = s.joinedm;
    handlem = s.handlem; parentm = s.parentm; cdepthm = s.cdepthm; cleftm =
    s.cleftm; cvalm = s.cvalm; outm = s.outm; gotm = s.gotm; tkm = s.tkm;
    tokm = s.tokm; parkedm = s.parkedm; reasonm = s.reasonm; bownerm =
    s.bownerm; nexta = s.nexta; nextb = s.nextb }

(** val set_jbm : st -> (nat -> nat) -> st **)

let set_jbm s v =
  { pcm = s.pcm; kindm = s.kindm; depthm = s.depthm; frm = s.frm; unwm =
    s.unwm; cbitm = s.cbitm; dism = s.dism; jcm = s.jcm; jbm = v; jexpm =
    s.jexpm; jresm = s.jresm; awm = s.awm; jstm = s.jstm; jwakem = s.jwakem;
    ipktm = s.ipktm; pktm = s.pktm; panm = s.panm; joinedm = s.joinedm;
    handlem = s.handlem; parentm = s.parentm; cdepthm = s.cdepthm; cleftm =
    s.cleftm; cvalm = s.cvalm; outm = s.outm; gotm = s.gotm; tkm = s.tkm;
    tokm = s.tokm; parkedm = s.parkedm; reasonm = s.reasonm; bownerm =
    s.bownerm; nexta = s.nexta; nextb = s.nextb }

(** val set_jexpm : st -> (nat -> bool) -> st **)

let set_jexpm s v =
  { pcm = s.pcm; kindm = s.kindm; depthm = s.depthm; frm = s.frm; unwm =
    s.unwm; cbitm = s.cbitm; dism = s.dism; jcm = s.jcm; jbm = s.jbm; jexpm =
    v; jresm = s.jresm; awm = s.awm; jstm = s.jstm; jwakem = s.jwakem;
    ipktm = s.ipktm; pktm = s.pktm; panm = s.panm; joinedm = s.joinedm;
    handlem = s.handlem; parentm = s.parentm; cdepthm = s.cdepthm; cleftm =
    s.cleftm; cvalm = s.cvalm; outm = s.outm; gotm = s.gotm; tkm = s.tkm;
    tokm = s.tokm; parkedm = s.parkedm; reasonm = s.reasonm; bownerm =
    s.bownerm; nexta = s.nexta; nextb = s.nextb }

(** val set_jresm : st -> (nat -> jresult) -> st **)

let set_jresm s v =
  { pcm = s.pcm; kindm = s.kindm; depthm = s.depthm; frm = s.frm; unwm =
    s.unwm; cbitm = s.cbitm; dism = s.dism; jcm = s.jcm; jbm = s.jbm; jexpm =
    s.jexpm; jresm = v; awm = s.awm; jstm = s.jstm; jwakem = s.jwakem;
    ipktm = s.ipktm; pktm = s.pktm; panm = s.panm; joinedm = s.joinedm;
    handlem = s.handlem; parentm = s.parentm; cdepthm = s.cdepthm; cleftm =
    s.cleftm; cvalm = s.cvalm; outm = s.outm; gotm = s.gotm; tkm = s.tkm;
    tokm = s.tokm; parkedm = s.parkedm; reasonm = s.reasonm; bownerm =
    s.bownerm; nexta = s.nexta; nextb = s.nextb }

(** val set_awm : st -> (nat -> nat) -> st **)

let set_awm s v =
  { pcm = s.pcm; kindm = s.kindm; depthm = s.depthm; frm = s.frm; unwm =
    s.unwm; cbitm = s.cbitm; dism = s.dism; jcm = s.jcm; jbm = s.jbm; jexpm =
    s.jexpm; jresm = s.jresm; awm = v; jstm = s.jstm; jwakem = s.jwakem;
    ipktm = s.ipktm; pktm = s.pktm; panm = s.panm; joinedm = s.joinedm;
    handlem = s.handlem; parentm = s.parentm; cdepthm = s.cdepthm; cleftm =
    s.cleftm; cvalm = s.cvalm; outm = s.outm; gotm = s.gotm; tkm = s.tkm;
    tokm = s.tokm; parkedm = s.parkedm; reasonm = s.reasonm; bownerm =
    s.bownerm; nexta = s.nexta; nextb = s.nextb }

(** val set_jstm : st -> (nat -> bool) -> st **)

let set_jstm s v =
  { pcm = s.pcm; kindm = s.kindm; depthm = s.depthm; frm = s.frm; unwm =
    s.unwm; cbitm = s.cbitm; dism = s.dism; jcm = s.jcm; jbm = s.jbm; jexpm =
    s.jexpm; jresm = s.jresm; awm = s.awm; jstm = v; jwakem = s.jwakem;
    ipktm = s.ipktm; pktm = s.pktm; panm = s.panm; joinedm = s.joinedm;
    handlem = s.handlem; parentm = s.parentm; cdepthm = s.cdepthm; cleftm =
    s.cleftm; cvalm = s.cvalm; outm = s.outm; gotm = s.gotm; tkm = s.tkm;
    tokm = s.tokm; parkedm = s.parkedm; reasonm = s.reasonm; bownerm =
    s.bownerm; nexta = s.nexta; nextb = s.nextb }

(** val set_jwakem : st -> (nat -> nat option) -> st **)

let set_jwakem s v =
  { pcm = s.pcm; kindm = s.kindm; depthm = s.depthm; frm = s.frm; unwm =
    s.unwm; cbitm = s.cbitm; dism = s.dism; jcm = s.jcm; jbm = s.jbm; jexpm =
    s.jexpm; jresm = s.jresm; awm = s.awm; jstm = s.jstm; jwakem = v; ipktm =
    s.ipktm; pktm = s.pktm; panm = s.panm; joinedm = s.joinedm; handlem =
    s.handlem; parentm = s.parentm; cdepthm = s.cdepthm; cleftm = s.cleftm;
    cvalm = s.cvalm; outm = s.outm; gotm = s.gotm; tkm = s.tkm; tokm =
    s.tokm; parkedm = s.parkedm; reasonm = s.reasonm; bownerm = s.bownerm;
    nexta = s.nexta; nextb = s.nextb }

(** val set_ipktm : st -> (nat -> bool) -> st **)

let set_ipktm s v =
  { pcm = s.pcm; kindm = s.kindm; depthm = s.depthm; frm = s.frm; unwm =
    s.unwm; cbitm = s.cbitm; dism = s.dism; jcm = s.jcm; jbm = s.jbm; jexpm =
    s.jexpm; jresm = s.jresm; awm = s.awm; jstm = s.jstm; jwakem = s.jwakem;
    ipktm = v; pktm = s.pktm; panm = s.panm; joinedm = s.joinedm; handlem =
    s.handlem; parentm = s.parentm; cdepthm = s.cdepthm; cleftm = s.cleftm;
    cvalm = s.cvalm; outm = s.outm; gotm = s.gotm; tkm = s.tkm; tokm =
    s.tokm; parkedm = s.parkedm; reasonm = s.reasonm; bownerm = s.bownerm;
    nexta = s.nexta; nextb = s.nextb }

(** val set_pktm : st -> (nat -> nat option) -> st **)

let set_pktm s v =
  { pcm = s.pcm; kindm = s.kindm; depthm = s.depthm; frm = s.frm; unwm =
    s.unwm; cbitm = s.cbitm; dism = s.dism; jcm = s.jcm; jbm = s.jbm; jexpm =
    s.jexpm; jresm = s.jresm; awm = s.awm; jstm = s.jstm; jwakem = s.jwakem;
    ipktm = s.ipktm; pktm = v; panm = s.panm; joinedm = s.joinedm; handlem =
    s.handlem; parentm = s.parentm; cdepthm = s.cdepthm; cleftm = s.cleftm;
    cvalm = s.cvalm; outm = s.outm; gotm = s.gotm; tkm = s.tkm; tokm =
    s.tokm; parkedm = s.parkedm; reasonm = s.reasonm; bownerm = s.bownerm;
    nexta = s.nexta; nextb = s.nextb }

(** val set_panm : st -> (nat -> nat option) -> st **)

let set_panm s v =
  { pcm = s.pcm; kindm = s.kindm; depthm = s.depthm; frm = s.frm; unwm =
    s.unwm; cbitm = s.cbitm; dism = s.dism; jcm = s.jcm; jbm = s.jbm; jexpm =
    s.jexpm; jresm = s.jresm; awm = s.awm; jstm = s.jstm; jwakem = s.jwakem;
    ipktm = s.ipktm; pktm = s.pktm; panm = v; joinedm = s.joinedm; handlem =
    s.handlem; parentm = s.parentm; cdepthm = s.cdepthm; cleftm = s.cleftm;
    cvalm = s.cvalm; outm = s.outm; gotm = s.gotm; tkm = s.tkm; tokm =
    s.tokm; parkedm = s.parkedm; reasonm = s.reasonm; bownerm = s.bownerm;
    nexta = s.nexta; nextb = s.nextb }

(** val set_joinedm : st -> (nat -> bool) -> st **)

let set_joinedm s v =
  { pcm = s.pcm; kindm = s.kindm; depthm = s.depthm; frm = s.frm; unwm =
    s.unwm; cbitm = s.cbitm; dism = s.dism; jcm = s.jcm; jbm = s.jbm; jexpm =
    s.jexpm; jresm = s.jresm; awm = s.awm; jstm = s.jstm; jwakem = s.jwakem;
    ipktm = s.ipktm; pktm = s.pktm; panm = s.panm; joinedm = v; handlem =
    s.handlem; parentm = s.parentm; cdepthm = s.cdepthm; cleftm = s.cleftm;
    cvalm = s.cvalm; outm = s.outm; gotm = s.gotm; tkm = s.tkm; tokm =
    s.tokm; parkedm = s.parkedm; reasonm = s.reasonm; bownerm = s.bownerm;
    nexta = s.nexta; nextb = s.nextb }

(** val set_handlem : st -> (nat -> bool) -> st **)

let set_handlem s v =
  { pcm = s.pcm; kindm = s.kindm; depthm = s.depthm; frm = s.frm; unwm =
    s.unwm; cbitm = s.cbitm; dism = s.dism; jcm = s.jcm; jbm = s.jbm; jexpm =
    s.jexpm; jresm = s.jresm; awm = s.awm; jstm = s.jstm; jwakem = s.jwakem;
    ipktm = s.ipktm; pktm = s.pktm; panm = s.panm; joinedm = s.joinedm;
    handlem = v; parentm = s.parentm; cdepthm = s.cdepthm; cleftm = s.cleftm;
    cvalm = s.cvalm; outm = s.outm; gotm = s.gotm; tkm = s.tkm; tokm =
    s.tokm; parkedm = s.parkedm; reasonm = s.reasonm; bownerm = s.bownerm;
    nexta = s.nexta; nextb = s.nextb }

(** val set_cleftm : st -> (nat -> bool) -> st **)

let set_cleftm s v =
  { pcm = s.pcm; kindm = s.kindm; depthm = s.depthm; frm = s.frm; unwm =
    s.unwm; cbitm = s.cbitm; dism = s.dism; jcm = s.jcm; jbm = s.jbm; jexpm =
    s.jexpm; jresm = s.jresm; awm = s.awm; jstm = s.jstm; jwakem = s.jwakem;
    ipktm = s.ipktm; pktm = s.pktm; panm = s.panm; joinedm = s.joinedm;
    handlem = s.handlem; parentm = s.parentm; cdepthm = s.cdepthm; cleftm =
    v; cvalm = s.cvalm; outm = s.outm; gotm = s.gotm; tkm = s.tkm; tokm =
    s.tokm; parkedm = s.parkedm; reasonm = s.reasonm; bownerm = s.bownerm;
    nexta = s.nexta; nextb = s.nextb }

(** val set_cvalm : st -> (nat -> nat) -> st **)

let set_cvalm s v =
  { pcm = s.pcm; kindm = s.kindm; depthm = s.depthm; frm = s.frm; unwm =
    s.unwm; cbitm = s.cbitm; dism = s.dism; jcm = s.jcm; jbm = s.jbm; jexpm =
    s.jexpm; jresm = s.jresm; awm = s.awm; jstm = s.jstm; jwakem = s.jwakem;
    ipktm = s.ipktm; pktm = s.pktm; panm = s.panm; joinedm = s.joinedm;
    handlem = s.handlem; parentm = s.parentm; cdepthm = s.cdepthm; cleftm =
    s.cleftm; cvalm = v; outm = s.outm; gotm = s.gotm; tkm = s.tkm; tokm =
    s.tokm; parkedm = s.parkedm; reasonm = s.reasonm; bownerm = s.bownerm;
    nexta = s.nexta; nextb = s.nextb }

(** val set_outm : st -> (nat -> outcome) -> st **)

let set_outm s v =
  { pcm = s.pcm; kindm = s.kindm; depthm = s.depthm; frm = s.frm; unwm =
    s.unwm; cbitm = s.cbitm; dism = s.dism; jcm = s.jcm; jbm = s.jbm; jexpm =
    s.jexpm; jresm = s.jresm; awm = s.awm; jstm = s.jstm; jwakem = s.jwakem;
    ipktm = s.ipktm; pktm = s.pktm; panm = s.panm; joinedm = s.joinedm;
    handlem = s.handlem; parentm = s.parentm; cdepthm = s.cdepthm; cleftm =
    s.cleftm; cvalm = s.cvalm; outm = v; gotm = s.gotm; tkm = s.tkm; tokm =
    s.tokm; parkedm = s.parkedm; reasonm = s.reasonm; bownerm = s.bownerm;
    nexta = s.nexta; nextb = s.nextb }

(** val set_gotm : st -> (nat -> nat) -> st **)

let set_gotm s v =
  { pcm = s.pcm; kindm = s.kindm; depthm = s.depthm; frm = s.frm; unwm =
    s.unwm; cbitm = s.cbitm; dism = s.dism; jcm = s.jcm; jbm = s.jbm; jexpm =
    s.jexpm; jresm = s.jresm; awm = s.awm; jstm = s.jstm; jwakem = s.jwakem;
    ipktm = s.ipktm; pktm = s.pktm; panm = s.panm; joinedm = s.joinedm;
    handlem = s.handlem; parentm = s.parentm; cdepthm = s.cdepthm; cleftm =
    s.cleftm; cvalm = s.cvalm; outm = s.outm; gotm = v; tkm = s.tkm; tokm =
    s.tokm; parkedm = s.parkedm; reasonm = s.reasonm; bownerm = s.bownerm;
    nexta = s.nexta; nextb = s.nextb }

(** val set_tkm : st -> (nat -> bool) -> st **)

let set_tkm s v =
  { pcm = s.pcm; kindm = s.kindm; depthm = s.depthm; frm = s.frm; unwm =
    s.unwm; cbitm = s.cbitm; dism = s.dism; jcm = s.jcm; jbm = s.jbm; jexpm =
    s.jexpm; jresm = s.jresm; awm = s.awm; jstm = s.jstm; jwakem = s.jwakem;
    ipktm = s.ipktm; pktm = s.pktm; panm = s.panm; joinedm = s.joinedm;
    handlem = s.handlem; parentm = s.parentm; cdepthm = s.cdepthm; cleftm =
    s.cleftm; cvalm = s.cvalm; outm = s.outm; gotm = s.gotm; tkm = v; tokm =
    s.tokm; parkedm = s.parkedm; reasonm = s.reasonm; bownerm = s.bownerm;
    nexta = s.nexta; nextb = s.nextb }

(** val set_tokm : st -> (nat -> bool) -> st **)

let set_tokm s v =
  { pcm = s.pcm; kindm = s.kindm; depthm = s.depthm; frm = s.frm; unwm =
    s.unwm; cbitm = s.cbitm; dism = s.dism; jcm = s.jcm; jbm = s.jbm; jexpm =
    s.jexpm; jresm = s.jresm; awm = s.awm; jstm = s.jstm; jwakem = s.jwakem;
    ipktm = s.ipktm; pktm = s.pktm; panm = s.panm; joinedm = s.joinedm;
    handlem = s.handlem; parentm = s.parentm; cdepthm = s.cdepthm; cleftm =
    s.cleftm; cvalm = s.cvalm; outm = s.outm; gotm = s.gotm; tkm = s.tkm;
    tokm = v; parkedm = s.parkedm; reasonm = s.reasonm; bownerm = s.bownerm;
    nexta = s.nexta; nextb = s.nextb }

(** val set_parkedm : st -> (nat -> bool) -> st **)

let set_parkedm s v =
  { pcm = s.pcm; kindm = s.kindm; depthm = s.depthm; frm = s.frm; unwm =
    s.unwm; cbitm = s.cbitm; dism = s.dism; jcm = s.jcm; jbm = s.jbm; jexpm =
    s.jexpm; jresm = s.jresm; awm = s.awm; jstm = s.jstm; jwakem = s.jwakem;
    ipktm = s.ipktm; pktm = s.pktm; panm = s.panm; joinedm = s.joinedm;
    handlem = s.handlem; parentm = s.parentm; cdepthm = s.cdepthm; cleftm =
    s.cleftm; cvalm = s.cvalm; outm = s.outm; gotm = s.gotm; tkm = s.tkm;
    tokm = s.tokm; parkedm = v; reasonm = s.reasonm; bownerm = s.bownerm;
    nexta = s.nexta; nextb = s.nextb }

(** val set_reasonm : st -> (nat -> rsn option) -> st **)

let set_reasonm s v =
  { pcm = s.pcm; kindm = s.kindm; depthm = s.depthm; frm = s.frm; unwm =
    s.unwm; cbitm = s.cbitm; dism = s.dism; jcm = s.jcm; jbm = s.jbm; jexpm =
    s.jexpm; jresm = s.jresm; awm = s.awm; jstm = s.jstm; jwakem = s.jwakem;
    ipktm = s.ipktm; pktm = s.pktm; panm = s.panm; joinedm = s.joinedm;
    handlem = s.handlem; parentm = s.parentm; cdepthm = s.cdepthm; cleftm =
    s.cleftm; cvalm = s.cvalm; outm = s.outm; gotm = s.gotm; tkm = s.tkm;
    tokm = s.tokm; parkedm = s.parkedm; reasonm = v; bownerm = s.bownerm;
    nexta = s.nexta; nextb = s.nextb }

(** val set_bownerm : st -> (nat -> nat) -> st **)

let set_bownerm s v =
  { pcm = s.pcm; kindm = s.kindm; depthm = s.depthm; frm = s.frm; unwm =
    s.unwm; cbitm = s.cbitm; dism = s.dism; jcm = s.jcm; jbm = s.jbm; jexpm =
    s.jexpm; jresm = s.jresm; awm = s.awm; jstm = s.jstm; jwakem = s.jwakem;
    ipktm = s.ipktm; pktm = s.pktm; panm = s.panm; joinedm = s.joinedm;
    handlem = s.handlem; parentm = s.parentm; cdepthm = s.cdepthm; cleftm =
    s.cleftm; cvalm = s.cvalm; outm = s.outm; gotm = s.gotm; tkm = s.tkm;
    tokm = s.tokm; parkedm = s.parkedm; reasonm = s.reasonm; bownerm = v;
    nexta = s.nexta; nextb = s.nextb }

(** val set_nextb : st -> nat -> st **)

let set_nextb s v =
  { pcm = s.pcm; kindm = s.kindm; depthm = s.depthm; frm = s.frm; unwm =
    s.unwm; cbitm = s.cbitm; dism = s.dism; jcm = s.jcm; jbm = s.jbm; jexpm =
    s.jexpm; jresm = s.jresm; awm = s.awm; jstm = s.jstm; jwakem = s.jwakem;
    ipktm = s.ipktm; pktm = s.pktm; panm = s.panm; joinedm = s.joinedm;
    handlem = s.handlem; parentm = s.parentm; cdepthm = s.cdepthm; cleftm =
    s.cleftm; cvalm = s.cvalm; outm = s.outm; gotm = s.gotm; tkm = s.tkm;
    tokm = s.tokm; parkedm = s.parkedm; reasonm = s.reasonm; bownerm =
    s.bownerm; nexta = s.nexta; nextb = v }

(** val upd : (nat -> 'a1) -> nat -> 'a1 -> nat -> 'a1 **)

let upd f i v j =
  if Nat.eqb j i then v else f j

type action =
| Root of kind
| Open of nat
| Spawn of nat * nat
| Close of nat
| Join of nat * nat
| Panic of nat * nat
| CPoint of nat
| Finish of nat * nat
| Cancel of nat
| Recheck of nat
| Step of nat

(** val is_co : kind -> bool **)

let is_co = function
| KThread -> false
| KCo -> true

(** val unwinding : unwst -> bool **)

let unwinding = function
| UNone -> false
| _ -> true

(** val onat_eqb : nat option -> nat -> bool **)

let onat_eqb x y =
  match x with
  | Some z0 -> Nat.eqb z0 y
  | None -> false

(** val pc_is_ww : pc -> bool **)

let pc_is_ww = function
| PWW -> true
| _ -> false

(** val pc_is_none : pc -> bool **)

let pc_is_none = function
| PNone -> true
| _ -> false

(** val pc_is_body : pc -> bool **)

let pc_is_body = function
| PBody -> true
| _ -> false

(** val is_none : 'a1 option -> bool **)

let is_none = function
| Some _ -> false
| None -> true

(** val wpc : st -> nat -> pc -> st **)

let wpc s a p =
  set_pcm s (upd s.pcm a p)

(** val new_task : st -> nat -> kind -> nat option -> nat -> bool -> st **)

let new_task s n k par d h =
  { pcm = (upd s.pcm n PBody); kindm = (upd s.kindm n k); depthm =
    (upd s.depthm n O); frm = (upd s.frm n (fun _ -> [])); unwm =
    (upd s.unwm n UNone); cbitm = (upd s.cbitm n false); dism =
    (upd s.dism n O); jcm = s.jcm; jbm = s.jbm; jexpm = s.jexpm; jresm =
    s.jresm; awm = s.awm; jstm = (upd s.jstm n true); jwakem =
    (upd s.jwakem n None); ipktm = (upd s.ipktm n false); pktm =
    (upd s.pktm n None); panm = (upd s.panm n None); joinedm =
    (upd s.joinedm n false); handlem = (upd s.handlem n h); parentm =
    (upd s.parentm n par); cdepthm = (upd s.cdepthm n d); cleftm =
    (upd s.cleftm n false); cvalm = s.cvalm; outm = (upd s.outm n ORun);
    gotm = (upd s.gotm n O); tkm = (upd s.tkm n false); tokm = s.tokm;
    parkedm = s.parkedm; reasonm = s.reasonm; bownerm = s.bownerm; nexta = (S
    n); nextb = s.nextb }

(** val raise : cfg -> st -> nat -> unwst -> bool -> st **)

let raise cf s a u indtor =
  let d = s.depthm a in
  let s0 = set_unwm s (upd s.unwm a u) in
  let s1 =
    if (&&) (negb cf.ctrans) indtor
    then set_frm s0 (upd s0.frm a (upd (s0.frm a) (sub d (S O)) []))
    else s0
  in
  wpc s1 a (match d with
            | O -> PF1
            | S _ -> PDrop)

(** val after_park : cfg -> pc **)

let after_park cf =
  if cf.cloop then PW0 else PT1

(** val after_take : cfg -> st -> nat -> pc **)

let after_take cf s a =
  if (&&) (is_co (s.kindm a)) cf.cdis then PEn else PRes

(** val cancel_due : st -> nat -> bool **)

let cancel_due s a =
  (&&) ((&&) (is_co (s.kindm a)) (s.cbitm a)) (Nat.eqb (s.dism a) O)

(** val step : cfg -> st -> action -> st option **)

let step cf s = function
| Root k -> Some (new_task s s.nexta k None O false)
| Open a ->
  if pc_is_body (s.pcm a)
  then let d = s.depthm a in
       let s0 = set_frm s (upd s.frm a (upd (s.frm a) d [])) in
       Some (set_depthm s0 (upd s0.depthm a (S d)))
  else None
| Spawn (a, d) ->
  if (&&) (pc_is_body (s.pcm a)) (Nat.ltb d (s.depthm a))
  then let n = s.nexta in
       let s0 = set_frm s (upd s.frm a (upd (s.frm a) d (n :: (s.frm a d))))
       in
       Some (new_task s0 n KCo (Some a) d true)
  else None
| Close a ->
  if (&&) (pc_is_body (s.pcm a)) (Nat.ltb O (s.depthm a))
  then Some (wpc s a PDrop)
  else None
| Join (a, c) ->
  if (&&)
       ((&&)
         ((&&) ((&&) (pc_is_body (s.pcm a)) (onat_eqb (s.parentm c) a))
           (negb (s.cleftm c))) (s.handlem c)) (negb (s.joinedm c))
  then let s0 = set_handlem s (upd s.handlem c false) in
       let s1 = set_joinedm s0 (upd s0.joinedm c true) in
       let s2 = set_jcm s1 (upd s1.jcm a c) in
       let s3 = set_jexpm s2 (upd s2.jexpm a true) in Some (wpc s3 a PJ0)
  else None
| Panic (a, p) ->
  if pc_is_body (s.pcm a) then Some (raise cf s a (UPanic p) false) else None
| CPoint a ->
  if (&&) (pc_is_body (s.pcm a)) (cancel_due s a)
  then Some (raise cf s a UCancel false)
  else None
| Finish (a, v) ->
  if (&&) (pc_is_body (s.pcm a)) (Nat.eqb (s.depthm a) O)
  then Some (wpc (set_cvalm s (upd s.cvalm a v)) a PF1)
  else None
| Cancel a ->
  if (&&) (negb (pc_is_none (s.pcm a))) (is_co (s.kindm a))
  then let s0 = set_cbitm s (upd s.cbitm a true) in
       if (&&) (pc_is_ww (s0.pcm a)) (is_none (s0.reasonm (s0.jbm a)))
       then Some (set_reasonm s0 (upd s0.reasonm (s0.jbm a) (Some RC)))
       else Some s0
  else None
| Recheck a ->
  if (&&) ((&&) (pc_is_ww (s.pcm a)) (cancel_due s a))
       (is_none (s.reasonm (s.jbm a)))
  then Some (set_reasonm s (upd s.reasonm (s.jbm a) (Some RC)))
  else None
| Step a ->
  let c = s.jcm a in
  let b = s.jbm a in
  (match s.pcm a with
   | PDrop ->
     (match s.depthm a with
      | O -> None
      | S d ->
        (match s.frm a d with
         | [] ->
           let s0 =
             set_cleftm s (fun x ->
               (||) (s.cleftm x)
                 ((&&) (onat_eqb (s.parentm x) a) (Nat.eqb (s.cdepthm x) d)))
           in
           let s1 = set_depthm s0 (upd s0.depthm a d) in
           Some
           (wpc s1 a
             (if unwinding (s1.unwm a)
              then (match d with
                    | O -> PF1
                    | S _ -> PDrop)
              else PBody))
         | x :: ds ->
           let s0 = set_frm s (upd s.frm a (upd (s.frm a) d ds)) in
           if s0.joinedm x
           then Some s0
           else let s1 = set_joinedm s0 (upd s0.joinedm x true) in
                let s2 = set_jcm s1 (upd s1.jcm a x) in
                let s3 = set_jexpm s2 (upd s2.jexpm a false) in
                Some (wpc s3 a PJ0)))
   | PJ0 ->
     let s0 =
       if (&&) (is_co (s.kindm a)) cf.cdis
       then set_dism s (upd s.dism a (S (s.dism a)))
       else s
     in
     Some (wpc s0 a PW0)
   | PW0 -> Some (wpc s a (if s.jstm c then PW1 else PT1))
   | PW1 ->
     let n = s.nextb in
     let s0 = set_tokm s (upd s.tokm n false) in
     let s1 = set_parkedm s0 (upd s0.parkedm n false) in
     let s2 = set_reasonm s1 (upd s1.reasonm n None) in
     let s3 = set_bownerm s2 (upd s2.bownerm n a) in
     let s4 = set_nextb s3 (S n) in
     let s5 = set_jwakem s4 (upd s4.jwakem c (Some n)) in
     let s6 = set_jbm s5 (upd s5.jbm a n) in Some (wpc s6 a PW2)
   | PW2 -> Some (wpc s a (if s.jstm c then PPark else PW3))
   | PW3 ->
     Some
       (wpc (set_jwakem s (upd s.jwakem c None)) a
         (if cf.cloop then PW0 else PT1))
   | PPark ->
     if s.tokm b
     then Some (wpc (set_tokm s (upd s.tokm b false)) a (after_park cf))
     else if cancel_due s a
          then if unwinding (s.unwm a)
               then Some (wpc s a (after_park cf))
               else Some (raise cf s a UCancel (negb (s.jexpm a)))
          else Some (wpc (set_parkedm s (upd s.parkedm b true)) a PWW)
   | PWW ->
     (match s.reasonm b with
      | Some _ ->
        let s0 = set_tokm s (upd s.tokm b false) in
        let s1 = set_parkedm s0 (upd s0.parkedm b false) in
        let s2 = set_reasonm s1 (upd s1.reasonm b None) in
        if (&&) (cancel_due s2 a) (negb (unwinding (s2.unwm a)))
        then Some (raise cf s2 a UCancel (negb (s2.jexpm a)))
        else Some (wpc s2 a (after_park cf))
      | None -> None)
   | PT1 ->
     if s.ipktm c
     then let s' = set_ipktm s (upd s.ipktm c false) in
          let s'0 = set_jresm s' (upd s'.jresm a ROk) in
          let s'1 = set_tkm s'0 (upd s'0.tkm c true) in
          Some (wpc s'1 a (after_take cf s a))
     else Some (wpc s a PT2)
   | PT2 ->
     let r = match s.panm c with
             | Some p -> RPanic p
             | None -> RCancel in
     let s' = set_panm s (upd s.panm c None) in
     let s'0 = set_jresm s' (upd s'.jresm a r) in
     let s'1 = set_tkm s'0 (upd s'0.tkm c true) in
     Some (wpc s'1 a (after_take cf s a))
   | PEn ->
     Some
       (wpc (set_dism s (upd s.dism a (sub (s.dism a) (S O)))) a
         (if (&&) (negb (s.jexpm a)) (unwinding (s.unwm a)) then PRes else PCk))
   | PCk ->
     if (&&) (cancel_due s a) (negb (unwinding (s.unwm a)))
     then Some (raise cf s a UCancel (negb (s.jexpm a)))
     else Some (wpc s a PRes)
   | PRes ->
     let cont = wpc s a (if s.jexpm a then PRet else PDrop) in
     (match s.unwm a with
      | UNone ->
        (match s.jresm a with
         | ROk -> Some cont
         | RPanic p -> Some (raise cf s a (UPanic p) (negb (s.jexpm a)))
         | RCancel -> Some (raise cf s a UCancel (negb (s.jexpm a))))
      | _ -> Some cont)
   | PRet ->
     (match s.pktm c with
      | Some _ ->
        let s0 = set_pktm s (upd s.pktm c None) in
        let s1 = set_gotm s0 (upd s0.gotm c (S (s0.gotm c))) in
        Some (wpc s1 a PBody)
      | None -> None)
   | PF1 ->
     let s0 =
       match s.unwm a with
       | UNone ->
         let s0 = set_pktm s (upd s.pktm a (Some (s.cvalm a))) in
         let s1 = set_ipktm s0 (upd s0.ipktm a true) in
         set_outm s1 (upd s1.outm a (OOk (s1.cvalm a)))
       | UPanic p ->
         let s0 = set_panm s (upd s.panm a (Some p)) in
         set_outm s0 (upd s0.outm a (OPanic p))
       | UCancel -> set_outm s (upd s.outm a OCancel)
     in
     Some (wpc s0 a PF2)
   | PF2 -> Some (wpc (set_jstm s (upd s.jstm a false)) a PF3)
   | PF3 ->
     (match s.jwakem a with
      | Some w ->
        let s0 = set_jwakem s (upd s.jwakem a None) in
        let s1 = set_awm s0 (upd s0.awm a w) in Some (wpc s1 a PF4)
      | None -> Some (wpc s a PDone))
   | PF4 ->
     let w = s.awm a in
     let s' = set_tokm s (upd s.tokm w true) in
     let s'0 =
       if (&&) (s.parkedm w) (is_none (s.reasonm w))
       then set_reasonm s' (upd s'.reasonm w (Some RU))
       else s'
     in
     Some (wpc s'0 a PDone)
   | _ -> None)

(** val init : st **)

let init =
  { pcm = (fun _ -> PNone); kindm = (fun _ -> KThread); depthm = (fun _ ->
    O); frm = (fun _ _ -> []); unwm = (fun _ -> UNone); cbitm = (fun _ ->
    false); dism = (fun _ -> O); jcm = (fun _ -> O); jbm = (fun _ -> O);
    jexpm = (fun _ -> false); jresm = (fun _ -> ROk); awm = (fun _ -> O);
    jstm = (fun _ -> true); jwakem = (fun _ -> None); ipktm = (fun _ ->
    false); pktm = (fun _ -> None); panm = (fun _ -> None); joinedm =
    (fun _ -> false); handlem = (fun _ -> false); parentm = (fun _ -> None);
    cdepthm = (fun _ -> O); cleftm = (fun _ -> false); cvalm = (fun _ -> O);
    outm = (fun _ -> ORun); gotm = (fun _ -> O); tkm = (fun _ -> false);
    tokm = (fun _ -> false); parkedm = (fun _ -> false); reasonm = (fun _ ->
    None); bownerm = (fun _ -> O); nexta = O; nextb = (S O) }

type aux = { amap : (nat -> nat); pmap : (nat -> nat); ph : (nat -> nat);
             ctgt : (nat -> nat); nest : (nat -> nat); cmap : (z * nat) list;
             ojs : (nat -> z); ojw : (nat -> z); opk : (nat -> z) }

type ast = st * aux

(** val aux0 : aux **)

let aux0 =
  { amap = (fun _ -> O); pmap = (fun _ -> O); ph = (fun _ -> O); ctgt =
    (fun _ -> O); nest = (fun _ -> O); cmap = []; ojs = (fun _ -> Z0); ojw =
    (fun _ -> Z0); opk = (fun _ -> Z0) }

(** val m_init : ast **)

let m_init =
  (init, aux0)

(** val set_amap : aux -> (nat -> nat) -> aux **)

let set_amap x m =
  { amap = m; pmap = x.pmap; ph = x.ph; ctgt = x.ctgt; nest = x.nest; cmap =
    x.cmap; ojs = x.ojs; ojw = x.ojw; opk = x.opk }

(** val set_pmap : aux -> (nat -> nat) -> aux **)

let set_pmap x m =
  { amap = x.amap; pmap = m; ph = x.ph; ctgt = x.ctgt; nest = x.nest; cmap =
    x.cmap; ojs = x.ojs; ojw = x.ojw; opk = x.opk }

(** val set_ph : aux -> nat -> nat -> aux **)

let set_ph x a p =
  { amap = x.amap; pmap = x.pmap; ph = (upd x.ph a p); ctgt = x.ctgt; nest =
    x.nest; cmap = x.cmap; ojs = x.ojs; ojw = x.ojw; opk = x.opk }

(** val set_ctgt : aux -> (nat -> nat) -> aux **)

let set_ctgt x m =
  { amap = x.amap; pmap = x.pmap; ph = x.ph; ctgt = m; nest = x.nest; cmap =
    x.cmap; ojs = x.ojs; ojw = x.ojw; opk = x.opk }

(** val set_cmap : aux -> (z * nat) list -> aux **)

let set_cmap x m =
  { amap = x.amap; pmap = x.pmap; ph = x.ph; ctgt = x.ctgt; nest = x.nest;
    cmap = m; ojs = x.ojs; ojw = x.ojw; opk = x.opk }

(** val set_nest : aux -> nat -> nat -> aux **)

let set_nest x a n =
  { amap = x.amap; pmap = x.pmap; ph = x.ph; ctgt = x.ctgt; nest =
    (upd x.nest a n); cmap = x.cmap; ojs = x.ojs; ojw = x.ojw; opk = x.opk }

(** val set_ojs : aux -> (nat -> z) -> aux **)

let set_ojs x m =
  { amap = x.amap; pmap = x.pmap; ph = x.ph; ctgt = x.ctgt; nest = x.nest;
    cmap = x.cmap; ojs = m; ojw = x.ojw; opk = x.opk }

(** val set_ojw : aux -> (nat -> z) -> aux **)

let set_ojw x m =
  { amap = x.amap; pmap = x.pmap; ph = x.ph; ctgt = x.ctgt; nest = x.nest;
    cmap = x.cmap; ojs = x.ojs; ojw = m; opk = x.opk }

(** val set_opk : aux -> (nat -> z) -> aux **)

let set_opk x m =
  { amap = x.amap; pmap = x.pmap; ph = x.ph; ctgt = x.ctgt; nest = x.nest;
    cmap = x.cmap; ojs = x.ojs; ojw = x.ojw; opk = m }

(** val pc_eqb : pc -> pc -> bool **)

let pc_eqb x y =
  match x with
  | PNone -> (match y with
              | PNone -> true
              | _ -> false)
  | PBody -> (match y with
              | PBody -> true
              | _ -> false)
  | PDrop -> (match y with
              | PDrop -> true
              | _ -> false)
  | PJ0 -> (match y with
            | PJ0 -> true
            | _ -> false)
  | PW0 -> (match y with
            | PW0 -> true
            | _ -> false)
  | PW1 -> (match y with
            | PW1 -> true
            | _ -> false)
  | PW2 -> (match y with
            | PW2 -> true
            | _ -> false)
  | PW3 -> (match y with
            | PW3 -> true
            | _ -> false)
  | PPark -> (match y with
              | PPark -> true
              | _ -> false)
  | PWW -> (match y with
            | PWW -> true
            | _ -> false)
  | PT1 -> (match y with
            | PT1 -> true
            | _ -> false)
  | PT2 -> (match y with
            | PT2 -> true
            | _ -> false)
  | PEn -> (match y with
            | PEn -> true
            | _ -> false)
  | PCk -> (match y with
            | PCk -> true
            | _ -> false)
  | PRes -> (match y with
             | PRes -> true
             | _ -> false)
  | PRet -> (match y with
             | PRet -> true
             | _ -> false)
  | PF1 -> (match y with
            | PF1 -> true
            | _ -> false)
  | PF2 -> (match y with
            | PF2 -> true
            | _ -> false)
  | PF3 -> (match y with
            | PF3 -> true
            | _ -> false)
  | PF4 -> (match y with
            | PF4 -> true
            | _ -> false)
  | PDone -> (match y with
              | PDone -> true
              | _ -> false)

(** val zb : z -> bool **)

let zb v =
  negb (Z.eqb v Z0)

(** val bz : bool -> z **)

let bz = function
| true -> Zpos XH
| false -> Z0

(** val at_pc : st -> nat -> pc -> bool **)

let at_pc s a p =
  pc_eqb (s.pcm a) p

(** val cword : st -> nat -> z **)

let cword s a =
  Z.add (bz (s.cbitm a)) (Z.mul (Zpos (XO XH)) (Z.of_nat (s.dism a)))

(** val cwn : st -> nat -> nat -> z **)

let cwn s n a =
  Z.add (cword s a) (Z.mul (Zpos (XO XH)) (Z.of_nat n))

(** val bind_obj : (nat -> z) -> nat -> z -> (nat -> z) option **)

let bind_obj m k o =
  if Z.eqb (m k) Z0
  then Some (upd m k o)
  else if Z.eqb (m k) o then Some m else None

(** val steps : st -> action list -> st option **)

let rec steps s = function
| [] -> Some s
| a :: l' ->
  (match step current s a with
   | Some s' -> steps s' l'
   | None -> None)

(** val silent : st -> nat -> bool **)

let silent s a =
  match s.pcm a with
  | PDrop ->
    (match s.depthm a with
     | O -> false
     | S d -> (match s.frm a d with
               | [] -> false
               | _ :: _ -> true))
  | PJ0 -> negb (is_co (s.kindm a))
  | PRes -> true
  | _ -> false

(** val norm : st -> nat -> nat -> action list **)

let rec norm s a = function
| O -> []
| S f ->
  if silent s a
  then (match step current s (Step a) with
        | Some s' -> (Step a) :: (norm s' a f)
        | None -> [])
  else []

type plan = { acts : action list; nxt : aux }

(** val act_on :
    st -> nat -> (st -> bool) -> (st -> action list) -> (st -> st -> aux
    option) -> plan option **)

let act_on s a chk main k =
  let pre =
    norm s a (S (S (S (S (S (S (S (S (S (S (S (S (S (S (S (S (S (S (S (S (S
      (S (S (S (S (S (S (S (S (S (S (S (S (S (S (S (S (S (S (S (S (S (S (S (S
      (S (S (S (S (S (S (S (S (S (S (S (S (S (S (S (S (S (S (S
      O))))))))))))))))))))))))))))))))))))))))))))))))))))))))))))))))
  in
  (match steps s pre with
   | Some s1 ->
     if chk s1
     then let m = main s1 in
          (match steps s1 m with
           | Some s2 ->
             let post =
               norm s2 a (S (S (S (S (S (S (S (S (S (S (S (S (S (S (S (S (S
                 (S (S (S (S (S (S (S (S (S (S (S (S (S (S (S (S (S (S (S (S
                 (S (S (S (S (S (S (S (S (S (S (S (S (S (S (S (S (S (S (S (S
                 (S (S (S (S (S (S (S
                 O))))))))))))))))))))))))))))))))))))))))))))))))))))))))))))))))
             in
             (match steps s2 post with
              | Some s3 ->
                (match k s1 s3 with
                 | Some x' -> Some { acts = (app pre (app m post)); nxt = x' }
                 | None -> None)
              | None -> None)
           | None -> None)
     else None
   | None -> None)

(** val lookup : (z * nat) list -> z -> nat option **)

let rec lookup l k =
  match l with
  | [] -> None
  | p :: r -> let (k', n) = p in if Z.eqb k k' then Some n else lookup r k

(** val task : aux -> nat -> nat option **)

let task x ta =
  match x.amap ta with
  | O -> None
  | S n -> Some n

(** val tgt : aux -> nat -> nat option **)

let tgt x ta =
  match x.ctgt ta with
  | O -> task x ta
  | S t -> Some t

(** val skip : aux -> plan option **)

let skip x =
  Some { acts = []; nxt = x }

(** val is_some : 'a1 option -> bool **)

let is_some = function
| Some _ -> true
| None -> false

(** val is_upanic : unwst -> bool **)

let is_upanic = function
| UPanic _ -> true
| _ -> false

(** val raised : st -> st -> nat -> bool **)

let raised s1 s3 a =
  (&&) (unwinding (s3.unwm a)) (negb (unwinding (s1.unwm a)))

(** val phis : aux -> nat -> nat -> bool **)

let phis x a n =
  Nat.eqb (x.ph a) n

(** val keep : aux -> st -> st -> aux option **)

let keep x _ _ =
  Some x

(** val one : nat -> st -> action list **)

let one a _ =
  (Step a) :: []

(** val none_acts : st -> action list **)

let none_acts _ =
  []

(** val plan_ev : st -> aux -> z list -> plan option **)

let plan_ev s x = function
| [] -> None
| code :: l ->
  (match l with
   | [] -> None
   | zta :: l0 ->
     (match l0 with
      | [] -> None
      | o :: l1 ->
        (match l1 with
         | [] -> None
         | v :: l2 ->
           (match l2 with
            | [] ->
              let ta = Z.to_nat zta in
              (match code with
               | Zpos p ->
                 (match p with
                  | XI p0 ->
                    (match p0 with
                     | XI p1 ->
                       (match p1 with
                        | XI p2 ->
                          (match p2 with
                           | XH ->
                             (match lookup x.cmap o with
                              | Some n ->
                                Some { acts = []; nxt =
                                  (set_amap x (upd x.amap ta (S n))) }
                              | None -> skip x)
                           | _ ->
                             (match task x ta with
                              | Some a ->
                                let c1 = fun s1 -> s1.jcm a in
                                (match code with
                                 | Zpos p3 ->
                                   (match p3 with
                                    | XI p4 ->
                                      (match p4 with
                                       | XI p5 ->
                                         (match p5 with
                                          | XI p6 ->
                                            (match p6 with
                                             | XI p7 ->
                                               (match p7 with
                                                | XH ->
                                                  act_on s a (fun s1 ->
                                                    (&&) (at_pc s1 a PRet)
                                                      (zb v)) (one a) 
                                                    (keep x)
                                                | _ -> None)
                                             | XO p7 ->
                                               (match p7 with
                                                | XH ->
                                                  act_on s a (fun s1 ->
                                                    (&&)
                                                      ((&&) (at_pc s1 a PW3)
                                                        (eqb
                                                          (is_some
                                                            (s1.jwakem
                                                              (c1 s1)))
                                                          (zb v)))
                                                      (Z.eqb (x.ojw (c1 s1))
                                                        o)) (one a) (keep x)
                                                | _ -> None)
                                             | XH -> None)
                                          | XO p6 ->
                                            (match p6 with
                                             | XI p7 ->
                                               (match p7 with
                                                | XI _ -> None
                                                | XO p8 ->
                                                  (match p8 with
                                                   | XH ->
                                                     if negb
                                                          (Nat.eqb (x.nest a)
                                                            O)
                                                     then if Z.eqb v
                                                               (cwn s
                                                                 (x.nest a) a)
                                                          then skip x
                                                          else None
                                                     else if phis x a (S (S
                                                               O))
                                                          then act_on s a
                                                                 (fun s1 ->
                                                                 (&&)
                                                                   (at_pc s1
                                                                    a PPark)
                                                                   (Z.eqb v
                                                                    (cword s1
                                                                    a)))
                                                                 (one a)
                                                                 (fun s1 s3 ->
                                                                 Some
                                                                 (set_ph x a
                                                                   (if 
                                                                    s1.tokm
                                                                    (s1.jbm a)
                                                                    then 
                                                                    S (S (S
                                                                    (S (S (S
                                                                    O)))))
                                                                    else 
                                                                    if 
                                                                    at_pc s3
                                                                    a PWW
                                                                    then 
                                                                    S (S (S
                                                                    (S (S (S
                                                                    (S (S
                                                                    O)))))))
                                                                    else 
                                                                    if 
                                                                    raised s1
                                                                    s3 a
                                                                    then 
                                                                    S (S (S
                                                                    (S (S (S
                                                                    (S (S (S
                                                                    (S (S (S
                                                                    (S
                                                                    O))))))))))))
                                                                    else 
                                                                    S (S (S
                                                                    (S (S (S
                                                                    (S O)))))))))
                                                          else act_on s a
                                                                 (fun s1 ->
                                                                 Z.eqb v
                                                                   (cword s1
                                                                    a))
                                                                 none_acts
                                                                 (keep x)
                                                   | _ -> None)
                                                | XH ->
                                                  act_on s a (fun s1 ->
                                                    (&&) (at_pc s1 a PT2)
                                                      (eqb
                                                        (is_some
                                                          (s1.panm (c1 s1)))
                                                        (zb v))) (one a)
                                                    (keep x))
                                             | XO p7 ->
                                               (match p7 with
                                                | XI p8 ->
                                                  (match p8 with
                                                   | XH ->
                                                     if (||)
                                                          (phis x a (S (S (S
                                                            O))))
                                                          (phis x a (S (S (S
                                                            (S (S (S (S (S (S
                                                            (S O)))))))))))
                                                     then Some { acts = [];
                                                            nxt =
                                                            (set_ph x a O) }
                                                     else None
                                                   | _ -> None)
                                                | _ -> None)
                                             | XH -> None)
                                          | XH ->
                                            act_on s a (fun s1 ->
                                              at_pc s1 a PBody) (fun _ ->
                                              (Panic (a,
                                              (Z.to_nat o))) :: []) (keep x))
                                       | XO p5 ->
                                         (match p5 with
                                          | XI p6 ->
                                            (match p6 with
                                             | XI _ -> None
                                             | XO p7 ->
                                               (match p7 with
                                                | XI p8 ->
                                                  (match p8 with
                                                   | XH ->
                                                     act_on s a (fun s1 ->
                                                       (&&) (at_pc s1 a PF4)
                                                         (is_co
                                                           (s1.kindm
                                                             (s1.bownerm
                                                               (s1.awm a)))))
                                                       (one a) (fun s1 _ ->
                                                       match bind_obj x.opk
                                                               (s1.awm a) o with
                                                       | Some m ->
                                                         Some (set_opk x m)
                                                       | None -> None)
                                                   | _ -> None)
                                                | XO _ -> None
                                                | XH ->
                                                  act_on s a (fun s1 ->
                                                    at_pc s1 a PW1) (one a)
                                                    (fun s1 _ ->
                                                    match bind_obj x.ojw
                                                            (c1 s1) o with
                                                    | Some m ->
                                                      Some (set_ojw x m)
                                                    | None -> None))
                                             | XH ->
                                               if phis x a (S O)
                                               then act_on s a (fun s1 ->
                                                      (&&)
                                                        ((&&)
                                                          (at_pc s1 a PWW)
                                                          (zb v))
                                                        (Z.eqb
                                                          (x.opk (s1.jbm a))
                                                          o)) (one a)
                                                      (fun _ _ -> Some
                                                      (set_ph x a O))
                                               else if phis x a (S (S (S (S
                                                         (S (S (S (S (S (S (S
                                                         (S O))))))))))))
                                                    then act_on s a (fun _ ->
                                                           zb v) none_acts
                                                           (fun _ _ -> Some
                                                           (set_ph x a O))
                                                    else None)
                                          | XO p6 ->
                                            (match p6 with
                                             | XI p7 ->
                                               (match p7 with
                                                | XI _ -> None
                                                | XO p8 ->
                                                  (match p8 with
                                                   | XH ->
                                                     (match x.nest a with
                                                      | O ->
                                                        act_on s a (fun s1 ->
                                                          (&&)
                                                            (at_pc s1 a PEn)
                                                            (Z.eqb v
                                                              (cword s1 a)))
                                                          (one a) (keep x)
                                                      | S n ->
                                                        if Z.eqb v
                                                             (cwn s (S n) a)
                                                        then Some { acts =
                                                               []; nxt =
                                                               (set_nest x a
                                                                 n) }
                                                        else None)
                                                   | _ -> None)
                                                | XH ->
                                                  act_on s a (fun s1 ->
                                                    (&&) (at_pc s1 a PF3)
                                                      (eqb
                                                        (is_some
                                                          (s1.jwakem a))
                                                        (zb v))) (one a)
                                                    (fun _ _ ->
                                                    match bind_obj x.ojw a o with
                                                    | Some m ->
                                                      Some (set_ojw x m)
                                                    | None -> None))
                                             | XO _ -> None
                                             | XH ->
                                               (match x.pmap (Z.to_nat o) with
                                                | O -> None
                                                | S c ->
                                                  act_on s a (fun s1 ->
                                                    (&&)
                                                      ((&&)
                                                        (at_pc s1 a PBody)
                                                        (Nat.eqb (s1.gotm c)
                                                          (S O)))
                                                      (Z.eqb
                                                        (Z.of_nat
                                                          (s1.cvalm c)) v))
                                                    none_acts (keep x)))
                                          | XH ->
                                            act_on s a (fun s1 ->
                                              at_pc s1 a PBody) (fun _ ->
                                              (Close a) :: []) (keep x))
                                       | XH -> None)
                                    | XO p4 ->
                                      (match p4 with
                                       | XI p5 ->
                                         (match p5 with
                                          | XI p6 ->
                                            (match p6 with
                                             | XI p7 ->
                                               (match p7 with
                                                | XH ->
                                                  act_on s a (fun s1 ->
                                                    (&&) (at_pc s1 a PF1)
                                                      (negb
                                                        (unwinding
                                                          (s1.unwm a))))
                                                    none_acts (keep x)
                                                | _ -> None)
                                             | XO p7 ->
                                               (match p7 with
                                                | XH ->
                                                  act_on s a (fun s1 ->
                                                    (&&)
                                                      ((&&) (at_pc s1 a PW2)
                                                        (eqb
                                                          (s1.jstm (c1 s1))
                                                          (zb v)))
                                                      (Z.eqb (x.ojs (c1 s1))
                                                        o)) (one a) (keep x)
                                                | _ -> None)
                                             | XH ->
                                               act_on s a (fun s1 ->
                                                 (&&) (at_pc s1 a PF4)
                                                   (negb
                                                     (is_co
                                                       (s1.kindm
                                                         (s1.bownerm
                                                           (s1.awm a))))))
                                                 (one a) (fun s1 _ ->
                                                 match bind_obj x.opk
                                                         (s1.awm a) o with
                                                 | Some m ->
                                                   Some (set_opk x m)
                                                 | None -> None))
                                          | XO p6 ->
                                            (match p6 with
                                             | XI p7 ->
                                               (match p7 with
                                                | XI _ -> None
                                                | XO p8 ->
                                                  (match p8 with
                                                   | XH ->
                                                     if negb
                                                          (Nat.eqb (x.nest a)
                                                            O)
                                                     then if Z.eqb v
                                                               (cwn s
                                                                 (x.nest a) a)
                                                          then skip x
                                                          else None
                                                     else if at_pc s a PCk
                                                          then act_on s a
                                                                 (fun s1 ->
                                                                 Z.eqb v
                                                                   (cword s1
                                                                    a))
                                                                 (one a)
                                                                 (keep x)
                                                          else if phis x a (S
                                                                    (S (S (S
                                                                    (S (S (S
                                                                    (S
                                                                    O))))))))
                                                               then act_on s
                                                                    a
                                                                    (fun s1 ->
                                                                    (&&)
                                                                    (at_pc s1
                                                                    a PWW)
                                                                    (Z.eqb v
                                                                    (cword s1
                                                                    a)))
                                                                    (one a)
                                                                    (fun s1 s3 ->
                                                                    Some
                                                                    (set_ph x
                                                                    a
                                                                    (if 
                                                                    raised s1
                                                                    s3 a
                                                                    then O
                                                                    else 
                                                                    S (S (S
                                                                    (S (S (S
                                                                    (S (S (S
                                                                    O)))))))))))
                                                               else if 
                                                                    phis x a
                                                                    (S (S (S
                                                                    (S (S (S
                                                                    O))))))
                                                                    then 
                                                                    act_on s
                                                                    a
                                                                    (fun s1 ->
                                                                    (&&)
                                                                    (Z.eqb v
                                                                    (cword s1
                                                                    a))
                                                                    (negb
                                                                    ((&&)
                                                                    (cancel_due
                                                                    s1 a)
                                                                    (negb
                                                                    (unwinding
                                                                    (s1.unwm
                                                                    a))))))
                                                                    none_acts
                                                                    (fun _ _ ->
                                                                    Some
                                                                    (set_ph x
                                                                    a (S (S
                                                                    (S (S (S
                                                                    (S (S (S
                                                                    (S
                                                                    O)))))))))))
                                                                    else 
                                                                    if 
                                                                    phis x a
                                                                    (S (S (S
                                                                    (S (S (S
                                                                    (S
                                                                    O)))))))
                                                                    then 
                                                                    act_on s
                                                                    a
                                                                    (fun s1 ->
                                                                    Z.eqb v
                                                                    (cword s1
                                                                    a))
                                                                    none_acts
                                                                    (fun _ _ ->
                                                                    Some
                                                                    (set_ph x
                                                                    a (S (S
                                                                    (S (S (S
                                                                    (S (S (S
                                                                    (S
                                                                    O)))))))))))
                                                                    else 
                                                                    if 
                                                                    phis x a
                                                                    (S (S (S
                                                                    (S (S (S
                                                                    (S (S (S
                                                                    (S (S (S
                                                                    (S
                                                                    O)))))))))))))
                                                                    then 
                                                                    act_on s
                                                                    a
                                                                    (fun s1 ->
                                                                    Z.eqb v
                                                                    (cword s1
                                                                    a))
                                                                    none_acts
                                                                    (fun _ _ ->
                                                                    Some
                                                                    (set_ph x
                                                                    a O))
                                                                    else 
                                                                    if 
                                                                    (&&)
                                                                    (phis x a
                                                                    O)
                                                                    (at_pc s
                                                                    a PBody)
                                                                    then 
                                                                    act_on s
                                                                    a
                                                                    (fun s1 ->
                                                                    Z.eqb v
                                                                    (cword s1
                                                                    a))
                                                                    (fun s1 ->
                                                                    if 
                                                                    (&&)
                                                                    (Z.eqb v
                                                                    (Zpos XH))
                                                                    (negb
                                                                    (unwinding
                                                                    (s1.unwm
                                                                    a)))
                                                                    then 
                                                                    (CPoint
                                                                    a) :: []
                                                                    else [])
                                                                    (keep x)
                                                                    else None
                                                   | _ -> None)
                                                | XH ->
                                                  act_on s a (fun s1 ->
                                                    (&&) (at_pc s1 a PT1)
                                                      (eqb (s1.ipktm (c1 s1))
                                                        (zb v))) (one a)
                                                    (keep x))
                                             | XO p7 ->
                                               (match p7 with
                                                | XI p8 ->
                                                  (match p8 with
                                                   | XH ->
                                                     if phis x a O
                                                     then act_on s a
                                                            (fun s1 ->
                                                            (&&)
                                                              ((&&)
                                                                (at_pc s1 a
                                                                  PPark)
                                                                (is_co
                                                                  (s1.kindm a)))
                                                              (eqb
                                                                (s1.tokm
                                                                  (s1.jbm a))
                                                                (zb v)))
                                                            (fun _ ->
                                                            if zb v
                                                            then (Step
                                                                   a) :: []
                                                            else [])
                                                            (fun s1 _ ->
                                                            match bind_obj
                                                                    x.opk
                                                                    (s1.jbm a)
                                                                    o with
                                                            | Some m ->
                                                              Some
                                                                (set_ph
                                                                  (set_opk x
                                                                    m) a
                                                                  (if zb v
                                                                   then 
                                                                    S (S (S
                                                                    O))
                                                                   else 
                                                                    S (S (S
                                                                    (S (S
                                                                    O))))))
                                                            | None -> None)
                                                     else if phis x a (S (S
                                                               (S (S (S (S (S
                                                               (S (S
                                                               O)))))))))
                                                          then Some { acts =
                                                                 []; nxt =
                                                                 (set_ph x a
                                                                   (if zb v
                                                                    then 
                                                                    S (S (S
                                                                    (S (S (S
                                                                    (S (S (S
                                                                    (S
                                                                    O)))))))))
                                                                    else 
                                                                    S (S (S
                                                                    (S (S (S
                                                                    (S (S (S
                                                                    (S (S
                                                                    O)))))))))))) }
                                                          else None
                                                   | _ -> None)
                                                | _ -> None)
                                             | XH ->
                                               act_on s a (fun s1 ->
                                                 at_pc s1 a PBody) (fun _ ->
                                                 (Finish (a,
                                                 (Z.to_nat v))) :: [])
                                                 (keep x))
                                          | XH ->
                                            act_on s a (fun s1 ->
                                              at_pc s1 a PDrop) (one a)
                                              (keep x))
                                       | XO p5 ->
                                         (match p5 with
                                          | XI p6 ->
                                            (match p6 with
                                             | XI p7 ->
                                               (match p7 with
                                                | XH ->
                                                  act_on s a (fun s1 ->
                                                    (&&) (at_pc s1 a PF1)
                                                      (is_upanic (s1.unwm a)))
                                                    none_acts (keep x)
                                                | _ -> None)
                                             | XO p7 ->
                                               (match p7 with
                                                | XI p8 ->
                                                  (match p8 with
                                                   | XH ->
                                                     if phis x a (S (S (S (S
                                                          (S O)))))
                                                     then act_on s a
                                                            (fun s1 ->
                                                            (&&)
                                                              ((&&)
                                                                (at_pc s1 a
                                                                  PPark)
                                                                (eqb
                                                                  (s1.tokm
                                                                    (s1.jbm a))
                                                                  (zb v)))
                                                              (Z.eqb
                                                                (x.opk
                                                                  (s1.jbm a))
                                                                o)) (fun _ ->
                                                            if zb v
                                                            then (Step
                                                                   a) :: []
                                                            else [])
                                                            (fun _ _ -> Some
                                                            (set_ph x a
                                                              (if zb v
                                                               then O
                                                               else S (S O))))
                                                     else if phis x a (S (S
                                                               (S (S (S (S (S
                                                               (S (S (S (S
                                                               O)))))))))))
                                                          then Some { acts =
                                                                 []; nxt =
                                                                 (set_ph x a
                                                                   O) }
                                                          else None
                                                   | _ -> None)
                                                | XO _ -> None
                                                | XH ->
                                                  act_on s a (fun s1 ->
                                                    (&&) (at_pc s1 a PW0)
                                                      (eqb (s1.jstm (c1 s1))
                                                        (zb v))) (one a)
                                                    (fun s1 _ ->
                                                    match bind_obj x.ojs
                                                            (c1 s1) o with
                                                    | Some m ->
                                                      Some (set_ojs x m)
                                                    | None -> None))
                                             | XH ->
                                               act_on s a (fun s1 ->
                                                 (&&)
                                                   ((&&) (at_pc s1 a PPark)
                                                     (negb
                                                       (is_co (s1.kindm a))))
                                                   (phis x a O)) (one a)
                                                 (fun s1 s3 ->
                                                 match bind_obj x.opk
                                                         (s1.jbm a) o with
                                                 | Some m ->
                                                   Some
                                                     (set_ph (set_opk x m) a
                                                       (if at_pc s3 a PWW
                                                        then S O
                                                        else S (S (S (S (S (S
                                                               (S (S (S (S (S
                                                               (S O)))))))))))))
                                                 | None -> None))
                                          | XO p6 ->
                                            (match p6 with
                                             | XI p7 ->
                                               (match p7 with
                                                | XI _ -> None
                                                | XO p8 ->
                                                  (match p8 with
                                                   | XH ->
                                                     if (&&)
                                                          (Nat.eqb (x.nest a)
                                                            O)
                                                          ((||)
                                                            (at_pc s a PJ0)
                                                            (at_pc s a PDrop))
                                                     then act_on s a
                                                            (fun s1 ->
                                                            (&&)
                                                              ((&&)
                                                                (at_pc s1 a
                                                                  PJ0)
                                                                (is_co
                                                                  (s1.kindm a)))
                                                              (Z.eqb v
                                                                (cword s1 a)))
                                                            (one a) (keep x)
                                                     else if Z.eqb v
                                                               (cwn s
                                                                 (x.nest a) a)
                                                          then Some { acts =
                                                                 []; nxt =
                                                                 (set_nest x
                                                                   a (S
                                                                   (x.nest a))) }
                                                          else None
                                                   | _ -> None)
                                                | XH ->
                                                  act_on s a (fun s1 ->
                                                    (&&)
                                                      ((||) (at_pc s1 a PF1)
                                                        (at_pc s1 a PF2))
                                                      (negb (zb v)))
                                                    (fun s1 ->
                                                    if at_pc s1 a PF1
                                                    then (Step a) :: ((Step
                                                           a) :: [])
                                                    else (Step a) :: [])
                                                    (fun _ _ ->
                                                    match bind_obj x.ojs a o with
                                                    | Some m ->
                                                      Some (set_ojs x m)
                                                    | None -> None))
                                             | XO _ -> None
                                             | XH ->
                                               (match x.pmap (Z.to_nat o) with
                                                | O -> None
                                                | S c ->
                                                  act_on s a (fun s1 ->
                                                    at_pc s1 a PBody)
                                                    (fun _ -> (Join (a,
                                                    c)) :: []) (keep x)))
                                          | XH ->
                                            act_on s a (fun s1 ->
                                              at_pc s1 a PBody) (fun _ ->
                                              (Open a) :: []) (keep x))
                                       | XH ->
                                         let n = s.nexta in
                                         act_on s a (fun s1 ->
                                           at_pc s1 a PBody) (fun _ -> (Spawn
                                           (a, (Z.to_nat v))) :: [])
                                           (fun _ _ -> Some
                                           (set_pmap x
                                             (upd x.pmap (Z.to_nat o) (S n)))))
                                    | XH -> None)
                                 | _ -> None)
                              | None -> skip x))
                        | XO p2 ->
                          (match p2 with
                           | XH ->
                             (match x.pmap (Z.to_nat o) with
                              | O -> None
                              | S n ->
                                Some { acts = []; nxt =
                                  (set_ctgt x (upd x.ctgt ta (S n))) })
                           | _ ->
                             (match task x ta with
                              | Some a ->
                                let c1 = fun s1 -> s1.jcm a in
                                (match code with
                                 | Zpos p3 ->
                                   (match p3 with
                                    | XI p4 ->
                                      (match p4 with
                                       | XI p5 ->
                                         (match p5 with
                                          | XI p6 ->
                                            (match p6 with
                                             | XI p7 ->
                                               (match p7 with
                                                | XH ->
                                                  act_on s a (fun s1 ->
                                                    (&&) (at_pc s1 a PRet)
                                                      (zb v)) (one a) 
                                                    (keep x)
                                                | _ -> None)
                                             | XO p7 ->
                                               (match p7 with
                                                | XH ->
                                                  act_on s a (fun s1 ->
                                                    (&&)
                                                      ((&&) (at_pc s1 a PW3)
                                                        (eqb
                                                          (is_some
                                                            (s1.jwakem
                                                              (c1 s1)))
                                                          (zb v)))
                                                      (Z.eqb (x.ojw (c1 s1))
                                                        o)) (one a) (keep x)
                                                | _ -> None)
                                             | XH -> None)
                                          | XO p6 ->
                                            (match p6 with
                                             | XI p7 ->
                                               (match p7 with
                                                | XI _ -> None
                                                | XO p8 ->
                                                  (match p8 with
                                                   | XH ->
                                                     if negb
                                                          (Nat.eqb (x.nest a)
                                                            O)
                                                     then if Z.eqb v
                                                               (cwn s
                                                                 (x.nest a) a)
                                                          then skip x
                                                          else None
                                                     else if phis x a (S (S
                                                               O))
                                                          then act_on s a
                                                                 (fun s1 ->
                                                                 (&&)
                                                                   (at_pc s1
                                                                    a PPark)
                                                                   (Z.eqb v
                                                                    (cword s1
                                                                    a)))
                                                                 (one a)
                                                                 (fun s1 s3 ->
                                                                 Some
                                                                 (set_ph x a
                                                                   (if 
                                                                    s1.tokm
                                                                    (s1.jbm a)
                                                                    then 
                                                                    S (S (S
                                                                    (S (S (S
                                                                    O)))))
                                                                    else 
                                                                    if 
                                                                    at_pc s3
                                                                    a PWW
                                                                    then 
                                                                    S (S (S
                                                                    (S (S (S
                                                                    (S (S
                                                                    O)))))))
                                                                    else 
                                                                    if 
                                                                    raised s1
                                                                    s3 a
                                                                    then 
                                                                    S (S (S
                                                                    (S (S (S
                                                                    (S (S (S
                                                                    (S (S (S
                                                                    (S
                                                                    O))))))))))))
                                                                    else 
                                                                    S (S (S
                                                                    (S (S (S
                                                                    (S O)))))))))
                                                          else act_on s a
                                                                 (fun s1 ->
                                                                 Z.eqb v
                                                                   (cword s1
                                                                    a))
                                                                 none_acts
                                                                 (keep x)
                                                   | _ -> None)
                                                | XH ->
                                                  act_on s a (fun s1 ->
                                                    (&&) (at_pc s1 a PT2)
                                                      (eqb
                                                        (is_some
                                                          (s1.panm (c1 s1)))
                                                        (zb v))) (one a)
                                                    (keep x))
                                             | XO p7 ->
                                               (match p7 with
                                                | XI p8 ->
                                                  (match p8 with
                                                   | XH ->
                                                     if (||)
                                                          (phis x a (S (S (S
                                                            O))))
                                                          (phis x a (S (S (S
                                                            (S (S (S (S (S (S
                                                            (S O)))))))))))
                                                     then Some { acts = [];
                                                            nxt =
                                                            (set_ph x a O) }
                                                     else None
                                                   | _ -> None)
                                                | _ -> None)
                                             | XH -> None)
                                          | XH ->
                                            act_on s a (fun s1 ->
                                              at_pc s1 a PBody) (fun _ ->
                                              (Panic (a,
                                              (Z.to_nat o))) :: []) (keep x))
                                       | XO p5 ->
                                         (match p5 with
                                          | XI p6 ->
                                            (match p6 with
                                             | XI _ -> None
                                             | XO p7 ->
                                               (match p7 with
                                                | XI p8 ->
                                                  (match p8 with
                                                   | XH ->
                                                     act_on s a (fun s1 ->
                                                       (&&) (at_pc s1 a PF4)
                                                         (is_co
                                                           (s1.kindm
                                                             (s1.bownerm
                                                               (s1.awm a)))))
                                                       (one a) (fun s1 _ ->
                                                       match bind_obj x.opk
                                                               (s1.awm a) o with
                                                       | Some m ->
                                                         Some (set_opk x m)
                                                       | None -> None)
                                                   | _ -> None)
                                                | XO _ -> None
                                                | XH ->
                                                  act_on s a (fun s1 ->
                                                    at_pc s1 a PW1) (one a)
                                                    (fun s1 _ ->
                                                    match bind_obj x.ojw
                                                            (c1 s1) o with
                                                    | Some m ->
                                                      Some (set_ojw x m)
                                                    | None -> None))
                                             | XH ->
                                               if phis x a (S O)
                                               then act_on s a (fun s1 ->
                                                      (&&)
                                                        ((&&)
                                                          (at_pc s1 a PWW)
                                                          (zb v))
                                                        (Z.eqb
                                                          (x.opk (s1.jbm a))
                                                          o)) (one a)
                                                      (fun _ _ -> Some
                                                      (set_ph x a O))
                                               else if phis x a (S (S (S (S
                                                         (S (S (S (S (S (S (S
                                                         (S O))))))))))))
                                                    then act_on s a (fun _ ->
                                                           zb v) none_acts
                                                           (fun _ _ -> Some
                                                           (set_ph x a O))
                                                    else None)
                                          | XO p6 ->
                                            (match p6 with
                                             | XI p7 ->
                                               (match p7 with
                                                | XI _ -> None
                                                | XO p8 ->
                                                  (match p8 with
                                                   | XH ->
                                                     (match x.nest a with
                                                      | O ->
                                                        act_on s a (fun s1 ->
                                                          (&&)
                                                            (at_pc s1 a PEn)
                                                            (Z.eqb v
                                                              (cword s1 a)))
                                                          (one a) (keep x)
                                                      | S n ->
                                                        if Z.eqb v
                                                             (cwn s (S n) a)
                                                        then Some { acts =
                                                               []; nxt =
                                                               (set_nest x a
                                                                 n) }
                                                        else None)
                                                   | _ -> None)
                                                | XH ->
                                                  act_on s a (fun s1 ->
                                                    (&&) (at_pc s1 a PF3)
                                                      (eqb
                                                        (is_some
                                                          (s1.jwakem a))
                                                        (zb v))) (one a)
                                                    (fun _ _ ->
                                                    match bind_obj x.ojw a o with
                                                    | Some m ->
                                                      Some (set_ojw x m)
                                                    | None -> None))
                                             | XO _ -> None
                                             | XH ->
                                               (match x.pmap (Z.to_nat o) with
                                                | O -> None
                                                | S c ->
                                                  act_on s a (fun s1 ->
                                                    (&&)
                                                      ((&&)
                                                        (at_pc s1 a PBody)
                                                        (Nat.eqb (s1.gotm c)
                                                          (S O)))
                                                      (Z.eqb
                                                        (Z.of_nat
                                                          (s1.cvalm c)) v))
                                                    none_acts (keep x)))
                                          | XH ->
                                            act_on s a (fun s1 ->
                                              at_pc s1 a PBody) (fun _ ->
                                              (Close a) :: []) (keep x))
                                       | XH -> None)
                                    | XO p4 ->
                                      (match p4 with
                                       | XI p5 ->
                                         (match p5 with
                                          | XI p6 ->
                                            (match p6 with
                                             | XI p7 ->
                                               (match p7 with
                                                | XH ->
                                                  act_on s a (fun s1 ->
                                                    (&&) (at_pc s1 a PF1)
                                                      (negb
                                                        (unwinding
                                                          (s1.unwm a))))
                                                    none_acts (keep x)
                                                | _ -> None)
                                             | XO p7 ->
                                               (match p7 with
                                                | XH ->
                                                  act_on s a (fun s1 ->
                                                    (&&)
                                                      ((&&) (at_pc s1 a PW2)
                                                        (eqb
                                                          (s1.jstm (c1 s1))
                                                          (zb v)))
                                                      (Z.eqb (x.ojs (c1 s1))
                                                        o)) (one a) (keep x)
                                                | _ -> None)
                                             | XH ->
                                               act_on s a (fun s1 ->
                                                 (&&) (at_pc s1 a PF4)
                                                   (negb
                                                     (is_co
                                                       (s1.kindm
                                                         (s1.bownerm
                                                           (s1.awm a))))))
                                                 (one a) (fun s1 _ ->
                                                 match bind_obj x.opk
                                                         (s1.awm a) o with
                                                 | Some m ->
                                                   Some (set_opk x m)
                                                 | None -> None))
                                          | XO p6 ->
                                            (match p6 with
                                             | XI p7 ->
                                               (match p7 with
                                                | XI _ -> None
                                                | XO p8 ->
                                                  (match p8 with
                                                   | XH ->
                                                     if negb
                                                          (Nat.eqb (x.nest a)
                                                            O)
                                                     then if Z.eqb v
                                                               (cwn s
                                                                 (x.nest a) a)
                                                          then skip x
                                                          else None
                                                     else if at_pc s a PCk
                                                          then act_on s a
                                                                 (fun s1 ->
                                                                 Z.eqb v
                                                                   (cword s1
                                                                    a))
                                                                 (one a)
                                                                 (keep x)
                                                          else if phis x a (S
                                                                    (S (S (S
                                                                    (S (S (S
                                                                    (S
                                                                    O))))))))
                                                               then act_on s
                                                                    a
                                                                    (fun s1 ->
                                                                    (&&)
                                                                    (at_pc s1
                                                                    a PWW)
                                                                    (Z.eqb v
                                                                    (cword s1
                                                                    a)))
                                                                    (one a)
                                                                    (fun s1 s3 ->
                                                                    Some
                                                                    (set_ph x
                                                                    a
                                                                    (if 
                                                                    raised s1
                                                                    s3 a
                                                                    then O
                                                                    else 
                                                                    S (S (S
                                                                    (S (S (S
                                                                    (S (S (S
                                                                    O)))))))))))
                                                               else if 
                                                                    phis x a
                                                                    (S (S (S
                                                                    (S (S (S
                                                                    O))))))
                                                                    then 
                                                                    act_on s
                                                                    a
                                                                    (fun s1 ->
                                                                    (&&)
                                                                    (Z.eqb v
                                                                    (cword s1
                                                                    a))
                                                                    (negb
                                                                    ((&&)
                                                                    (cancel_due
                                                                    s1 a)
                                                                    (negb
                                                                    (unwinding
                                                                    (s1.unwm
                                                                    a))))))
                                                                    none_acts
                                                                    (fun _ _ ->
                                                                    Some
                                                                    (set_ph x
                                                                    a (S (S
                                                                    (S (S (S
                                                                    (S (S (S
                                                                    (S
                                                                    O)))))))))))
                                                                    else 
                                                                    if 
                                                                    phis x a
                                                                    (S (S (S
                                                                    (S (S (S
                                                                    (S
                                                                    O)))))))
                                                                    then 
                                                                    act_on s
                                                                    a
                                                                    (fun s1 ->
                                                                    Z.eqb v
                                                                    (cword s1
                                                                    a))
                                                                    none_acts
                                                                    (fun _ _ ->
                                                                    Some
                                                                    (set_ph x
                                                                    a (S (S
                                                                    (S (S (S
                                                                    (S (S (S
                                                                    (S
                                                                    O)))))))))))
                                                                    else 
                                                                    if 
                                                                    phis x a
                                                                    (S (S (S
                                                                    (S (S (S
                                                                    (S (S (S
                                                                    (S (S (S
                                                                    (S
                                                                    O)))))))))))))
                                                                    then 
                                                                    act_on s
                                                                    a
                                                                    (fun s1 ->
                                                                    Z.eqb v
                                                                    (cword s1
                                                                    a))
                                                                    none_acts
                                                                    (fun _ _ ->
                                                                    Some
                                                                    (set_ph x
                                                                    a O))
                                                                    else 
                                                                    if 
                                                                    (&&)
                                                                    (phis x a
                                                                    O)
                                                                    (at_pc s
                                                                    a PBody)
                                                                    then 
                                                                    act_on s
                                                                    a
                                                                    (fun s1 ->
                                                                    Z.eqb v
                                                                    (cword s1
                                                                    a))
                                                                    (fun s1 ->
                                                                    if 
                                                                    (&&)
                                                                    (Z.eqb v
                                                                    (Zpos XH))
                                                                    (negb
                                                                    (unwinding
                                                                    (s1.unwm
                                                                    a)))
                                                                    then 
                                                                    (CPoint
                                                                    a) :: []
                                                                    else [])
                                                                    (keep x)
                                                                    else None
                                                   | _ -> None)
                                                | XH ->
                                                  act_on s a (fun s1 ->
                                                    (&&) (at_pc s1 a PT1)
                                                      (eqb (s1.ipktm (c1 s1))
                                                        (zb v))) (one a)
                                                    (keep x))
                                             | XO p7 ->
                                               (match p7 with
                                                | XI p8 ->
                                                  (match p8 with
                                                   | XH ->
                                                     if phis x a O
                                                     then act_on s a
                                                            (fun s1 ->
                                                            (&&)
                                                              ((&&)
                                                                (at_pc s1 a
                                                                  PPark)
                                                                (is_co
                                                                  (s1.kindm a)))
                                                              (eqb
                                                                (s1.tokm
                                                                  (s1.jbm a))
                                                                (zb v)))
                                                            (fun _ ->
                                                            if zb v
                                                            then (Step
                                                                   a) :: []
                                                            else [])
                                                            (fun s1 _ ->
                                                            match bind_obj
                                                                    x.opk
                                                                    (s1.jbm a)
                                                                    o with
                                                            | Some m ->
                                                              Some
                                                                (set_ph
                                                                  (set_opk x
                                                                    m) a
                                                                  (if zb v
                                                                   then 
                                                                    S (S (S
                                                                    O))
                                                                   else 
                                                                    S (S (S
                                                                    (S (S
                                                                    O))))))
                                                            | None -> None)
                                                     else if phis x a (S (S
                                                               (S (S (S (S (S
                                                               (S (S
                                                               O)))))))))
                                                          then Some { acts =
                                                                 []; nxt =
                                                                 (set_ph x a
                                                                   (if zb v
                                                                    then 
                                                                    S (S (S
                                                                    (S (S (S
                                                                    (S (S (S
                                                                    (S
                                                                    O)))))))))
                                                                    else 
                                                                    S (S (S
                                                                    (S (S (S
                                                                    (S (S (S
                                                                    (S (S
                                                                    O)))))))))))) }
                                                          else None
                                                   | _ -> None)
                                                | _ -> None)
                                             | XH ->
                                               act_on s a (fun s1 ->
                                                 at_pc s1 a PBody) (fun _ ->
                                                 (Finish (a,
                                                 (Z.to_nat v))) :: [])
                                                 (keep x))
                                          | XH ->
                                            act_on s a (fun s1 ->
                                              at_pc s1 a PDrop) (one a)
                                              (keep x))
                                       | XO p5 ->
                                         (match p5 with
                                          | XI p6 ->
                                            (match p6 with
                                             | XI p7 ->
                                               (match p7 with
                                                | XH ->
                                                  act_on s a (fun s1 ->
                                                    (&&) (at_pc s1 a PF1)
                                                      (is_upanic (s1.unwm a)))
                                                    none_acts (keep x)
                                                | _ -> None)
                                             | XO p7 ->
                                               (match p7 with
                                                | XI p8 ->
                                                  (match p8 with
                                                   | XH ->
                                                     if phis x a (S (S (S (S
                                                          (S O)))))
                                                     then act_on s a
                                                            (fun s1 ->
                                                            (&&)
                                                              ((&&)
                                                                (at_pc s1 a
                                                                  PPark)
                                                                (eqb
                                                                  (s1.tokm
                                                                    (s1.jbm a))
                                                                  (zb v)))
                                                              (Z.eqb
                                                                (x.opk
                                                                  (s1.jbm a))
                                                                o)) (fun _ ->
                                                            if zb v
                                                            then (Step
                                                                   a) :: []
                                                            else [])
                                                            (fun _ _ -> Some
                                                            (set_ph x a
                                                              (if zb v
                                                               then O
                                                               else S (S O))))
                                                     else if phis x a (S (S
                                                               (S (S (S (S (S
                                                               (S (S (S (S
                                                               O)))))))))))
                                                          then Some { acts =
                                                                 []; nxt =
                                                                 (set_ph x a
                                                                   O) }
                                                          else None
                                                   | _ -> None)
                                                | XO _ -> None
                                                | XH ->
                                                  act_on s a (fun s1 ->
                                                    (&&) (at_pc s1 a PW0)
                                                      (eqb (s1.jstm (c1 s1))
                                                        (zb v))) (one a)
                                                    (fun s1 _ ->
                                                    match bind_obj x.ojs
                                                            (c1 s1) o with
                                                    | Some m ->
                                                      Some (set_ojs x m)
                                                    | None -> None))
                                             | XH ->
                                               act_on s a (fun s1 ->
                                                 (&&)
                                                   ((&&) (at_pc s1 a PPark)
                                                     (negb
                                                       (is_co (s1.kindm a))))
                                                   (phis x a O)) (one a)
                                                 (fun s1 s3 ->
                                                 match bind_obj x.opk
                                                         (s1.jbm a) o with
                                                 | Some m ->
                                                   Some
                                                     (set_ph (set_opk x m) a
                                                       (if at_pc s3 a PWW
                                                        then S O
                                                        else S (S (S (S (S (S
                                                               (S (S (S (S (S
                                                               (S O)))))))))))))
                                                 | None -> None))
                                          | XO p6 ->
                                            (match p6 with
                                             | XI p7 ->
                                               (match p7 with
                                                | XI _ -> None
                                                | XO p8 ->
                                                  (match p8 with
                                                   | XH ->
                                                     if (&&)
                                                          (Nat.eqb (x.nest a)
                                                            O)
                                                          ((||)
                                                            (at_pc s a PJ0)
                                                            (at_pc s a PDrop))
                                                     then act_on s a
                                                            (fun s1 ->
                                                            (&&)
                                                              ((&&)
                                                                (at_pc s1 a
                                                                  PJ0)
                                                                (is_co
                                                                  (s1.kindm a)))
                                                              (Z.eqb v
                                                                (cword s1 a)))
                                                            (one a) (keep x)
                                                     else if Z.eqb v
                                                               (cwn s
                                                                 (x.nest a) a)
                                                          then Some { acts =
                                                                 []; nxt =
                                                                 (set_nest x
                                                                   a (S
                                                                   (x.nest a))) }
                                                          else None
                                                   | _ -> None)
                                                | XH ->
                                                  act_on s a (fun s1 ->
                                                    (&&)
                                                      ((||) (at_pc s1 a PF1)
                                                        (at_pc s1 a PF2))
                                                      (negb (zb v)))
                                                    (fun s1 ->
                                                    if at_pc s1 a PF1
                                                    then (Step a) :: ((Step
                                                           a) :: [])
                                                    else (Step a) :: [])
                                                    (fun _ _ ->
                                                    match bind_obj x.ojs a o with
                                                    | Some m ->
                                                      Some (set_ojs x m)
                                                    | None -> None))
                                             | XO _ -> None
                                             | XH ->
                                               (match x.pmap (Z.to_nat o) with
                                                | O -> None
                                                | S c ->
                                                  act_on s a (fun s1 ->
                                                    at_pc s1 a PBody)
                                                    (fun _ -> (Join (a,
                                                    c)) :: []) (keep x)))
                                          | XH ->
                                            act_on s a (fun s1 ->
                                              at_pc s1 a PBody) (fun _ ->
                                              (Open a) :: []) (keep x))
                                       | XH ->
                                         let n = s.nexta in
                                         act_on s a (fun s1 ->
                                           at_pc s1 a PBody) (fun _ -> (Spawn
                                           (a, (Z.to_nat v))) :: [])
                                           (fun _ _ -> Some
                                           (set_pmap x
                                             (upd x.pmap (Z.to_nat o) (S n)))))
                                    | XH -> None)
                                 | _ -> None)
                              | None -> skip x))
                        | XH ->
                          (match task x ta with
                           | Some a ->
                             let c1 = fun s1 -> s1.jcm a in
                             (match code with
                              | Zpos p2 ->
                                (match p2 with
                                 | XI p3 ->
                                   (match p3 with
                                    | XI p4 ->
                                      (match p4 with
                                       | XI p5 ->
                                         (match p5 with
                                          | XI p6 ->
                                            (match p6 with
                                             | XH ->
                                               act_on s a (fun s1 ->
                                                 (&&) (at_pc s1 a PRet) (zb v))
                                                 (one a) (keep x)
                                             | _ -> None)
                                          | XO p6 ->
                                            (match p6 with
                                             | XH ->
                                               act_on s a (fun s1 ->
                                                 (&&)
                                                   ((&&) (at_pc s1 a PW3)
                                                     (eqb
                                                       (is_some
                                                         (s1.jwakem (c1 s1)))
                                                       (zb v)))
                                                   (Z.eqb (x.ojw (c1 s1)) o))
                                                 (one a) (keep x)
                                             | _ -> None)
                                          | XH -> None)
                                       | XO p5 ->
                                         (match p5 with
                                          | XI p6 ->
                                            (match p6 with
                                             | XI _ -> None
                                             | XO p7 ->
                                               (match p7 with
                                                | XH ->
                                                  if negb
                                                       (Nat.eqb (x.nest a) O)
                                                  then if Z.eqb v
                                                            (cwn s (x.nest a)
                                                              a)
                                                       then skip x
                                                       else None
                                                  else if phis x a (S (S O))
                                                       then act_on s a
                                                              (fun s1 ->
                                                              (&&)
                                                                (at_pc s1 a
                                                                  PPark)
                                                                (Z.eqb v
                                                                  (cword s1 a)))
                                                              (one a)
                                                              (fun s1 s3 ->
                                                              Some
                                                              (set_ph x a
                                                                (if s1.tokm
                                                                    (s1.jbm a)
                                                                 then 
                                                                   S (S (S (S
                                                                    (S (S
                                                                    O)))))
                                                                 else 
                                                                   if 
                                                                    at_pc s3
                                                                    a PWW
                                                                   then 
                                                                    S (S (S
                                                                    (S (S (S
                                                                    (S (S
                                                                    O)))))))
                                                                   else 
                                                                    if 
                                                                    raised s1
                                                                    s3 a
                                                                    then 
                                                                    S (S (S
                                                                    (S (S (S
                                                                    (S (S (S
                                                                    (S (S (S
                                                                    (S
                                                                    O))))))))))))
                                                                    else 
                                                                    S (S (S
                                                                    (S (S (S
                                                                    (S O)))))))))
                                                       else act_on s a
                                                              (fun s1 ->
                                                              Z.eqb v
                                                                (cword s1 a))
                                                              none_acts
                                                              (keep x)
                                                | _ -> None)
                                             | XH ->
                                               act_on s a (fun s1 ->
                                                 (&&) (at_pc s1 a PT2)
                                                   (eqb
                                                     (is_some
                                                       (s1.panm (c1 s1)))
                                                     (zb v))) (one a) 
                                                 (keep x))
                                          | XO p6 ->
                                            (match p6 with
                                             | XI p7 ->
                                               (match p7 with
                                                | XH ->
                                                  if (||)
                                                       (phis x a (S (S (S
                                                         O))))
                                                       (phis x a (S (S (S (S
                                                         (S (S (S (S (S (S
                                                         O)))))))))))
                                                  then Some { acts = [];
                                                         nxt =
                                                         (set_ph x a O) }
                                                  else None
                                                | _ -> None)
                                             | _ -> None)
                                          | XH -> None)
                                       | XH ->
                                         act_on s a (fun s1 ->
                                           at_pc s1 a PBody) (fun _ -> (Panic
                                           (a, (Z.to_nat o))) :: []) 
                                           (keep x))
                                    | XO p4 ->
                                      (match p4 with
                                       | XI p5 ->
                                         (match p5 with
                                          | XI _ -> None
                                          | XO p6 ->
                                            (match p6 with
                                             | XI p7 ->
                                               (match p7 with
                                                | XH ->
                                                  act_on s a (fun s1 ->
                                                    (&&) (at_pc s1 a PF4)
                                                      (is_co
                                                        (s1.kindm
                                                          (s1.bownerm
                                                            (s1.awm a)))))
                                                    (one a) (fun s1 _ ->
                                                    match bind_obj x.opk
                                                            (s1.awm a) o with
                                                    | Some m ->
                                                      Some (set_opk x m)
                                                    | None -> None)
                                                | _ -> None)
                                             | XO _ -> None
                                             | XH ->
                                               act_on s a (fun s1 ->
                                                 at_pc s1 a PW1) (one a)
                                                 (fun s1 _ ->
                                                 match bind_obj x.ojw 
                                                         (c1 s1) o with
                                                 | Some m ->
                                                   Some (set_ojw x m)
                                                 | None -> None))
                                          | XH ->
                                            if phis x a (S O)
                                            then act_on s a (fun s1 ->
                                                   (&&)
                                                     ((&&) (at_pc s1 a PWW)
                                                       (zb v))
                                                     (Z.eqb
                                                       (x.opk (s1.jbm a)) o))
                                                   (one a) (fun _ _ -> Some
                                                   (set_ph x a O))
                                            else if phis x a (S (S (S (S (S
                                                      (S (S (S (S (S (S (S
                                                      O))))))))))))
                                                 then act_on s a (fun _ ->
                                                        zb v) none_acts
                                                        (fun _ _ -> Some
                                                        (set_ph x a O))
                                                 else None)
                                       | XO p5 ->
                                         (match p5 with
                                          | XI p6 ->
                                            (match p6 with
                                             | XI _ -> None
                                             | XO p7 ->
                                               (match p7 with
                                                | XH ->
                                                  (match x.nest a with
                                                   | O ->
                                                     act_on s a (fun s1 ->
                                                       (&&) (at_pc s1 a PEn)
                                                         (Z.eqb v
                                                           (cword s1 a)))
                                                       (one a) (keep x)
                                                   | S n ->
                                                     if Z.eqb v
                                                          (cwn s (S n) a)
                                                     then Some { acts = [];
                                                            nxt =
                                                            (set_nest x a n) }
                                                     else None)
                                                | _ -> None)
                                             | XH ->
                                               act_on s a (fun s1 ->
                                                 (&&) (at_pc s1 a PF3)
                                                   (eqb
                                                     (is_some (s1.jwakem a))
                                                     (zb v))) (one a)
                                                 (fun _ _ ->
                                                 match bind_obj x.ojw a o with
                                                 | Some m ->
                                                   Some (set_ojw x m)
                                                 | None -> None))
                                          | XO _ -> None
                                          | XH ->
                                            (match x.pmap (Z.to_nat o) with
                                             | O -> None
                                             | S c ->
                                               act_on s a (fun s1 ->
                                                 (&&)
                                                   ((&&) (at_pc s1 a PBody)
                                                     (Nat.eqb (s1.gotm c) (S
                                                       O)))
                                                   (Z.eqb
                                                     (Z.of_nat (s1.cvalm c))
                                                     v)) none_acts (keep x)))
                                       | XH ->
                                         act_on s a (fun s1 ->
                                           at_pc s1 a PBody) (fun _ -> (Close
                                           a) :: []) (keep x))
                                    | XH -> None)
                                 | XO p3 ->
                                   (match p3 with
                                    | XI p4 ->
                                      (match p4 with
                                       | XI p5 ->
                                         (match p5 with
                                          | XI p6 ->
                                            (match p6 with
                                             | XH ->
                                               act_on s a (fun s1 ->
                                                 (&&) (at_pc s1 a PF1)
                                                   (negb
                                                     (unwinding (s1.unwm a))))
                                                 none_acts (keep x)
                                             | _ -> None)
                                          | XO p6 ->
                                            (match p6 with
                                             | XH ->
                                               act_on s a (fun s1 ->
                                                 (&&)
                                                   ((&&) (at_pc s1 a PW2)
                                                     (eqb (s1.jstm (c1 s1))
                                                       (zb v)))
                                                   (Z.eqb (x.ojs (c1 s1)) o))
                                                 (one a) (keep x)
                                             | _ -> None)
                                          | XH ->
                                            act_on s a (fun s1 ->
                                              (&&) (at_pc s1 a PF4)
                                                (negb
                                                  (is_co
                                                    (s1.kindm
                                                      (s1.bownerm (s1.awm a))))))
                                              (one a) (fun s1 _ ->
                                              match bind_obj x.opk (s1.awm a)
                                                      o with
                                              | Some m -> Some (set_opk x m)
                                              | None -> None))
                                       | XO p5 ->
                                         (match p5 with
                                          | XI p6 ->
                                            (match p6 with
                                             | XI _ -> None
                                             | XO p7 ->
                                               (match p7 with
                                                | XH ->
                                                  if negb
                                                       (Nat.eqb (x.nest a) O)
                                                  then if Z.eqb v
                                                            (cwn s (x.nest a)
                                                              a)
                                                       then skip x
                                                       else None
                                                  else if at_pc s a PCk
                                                       then act_on s a
                                                              (fun s1 ->
                                                              Z.eqb v
                                                                (cword s1 a))
                                                              (one a) 
                                                              (keep x)
                                                       else if phis x a (S (S
                                                                 (S (S (S (S
                                                                 (S (S
                                                                 O))))))))
                                                            then act_on s a
                                                                   (fun s1 ->
                                                                   (&&)
                                                                    (at_pc s1
                                                                    a PWW)
                                                                    (Z.eqb v
                                                                    (cword s1
                                                                    a)))
                                                                   (one a)
                                                                   (fun s1 s3 ->
                                                                   Some
                                                                   (set_ph x
                                                                    a
                                                                    (if 
                                                                    raised s1
                                                                    s3 a
                                                                    then O
                                                                    else 
                                                                    S (S (S
                                                                    (S (S (S
                                                                    (S (S (S
                                                                    O)))))))))))
                                                            else if phis x a
                                                                    (S (S (S
                                                                    (S (S (S
                                                                    O))))))
                                                                 then 
                                                                   act_on s a
                                                                    (fun s1 ->
                                                                    (&&)
                                                                    (Z.eqb v
                                                                    (cword s1
                                                                    a))
                                                                    (negb
                                                                    ((&&)
                                                                    (cancel_due
                                                                    s1 a)
                                                                    (negb
                                                                    (unwinding
                                                                    (s1.unwm
                                                                    a))))))
                                                                    none_acts
                                                                    (fun _ _ ->
                                                                    Some
                                                                    (set_ph x
                                                                    a (S (S
                                                                    (S (S (S
                                                                    (S (S (S
                                                                    (S
                                                                    O)))))))))))
                                                                 else 
                                                                   if 
                                                                    phis x a
                                                                    (S (S (S
                                                                    (S (S (S
                                                                    (S
                                                                    O)))))))
                                                                   then 
                                                                    act_on s
                                                                    a
                                                                    (fun s1 ->
                                                                    Z.eqb v
                                                                    (cword s1
                                                                    a))
                                                                    none_acts
                                                                    (fun _ _ ->
                                                                    Some
                                                                    (set_ph x
                                                                    a (S (S
                                                                    (S (S (S
                                                                    (S (S (S
                                                                    (S
                                                                    O)))))))))))
                                                                   else 
                                                                    if 
                                                                    phis x a
                                                                    (S (S (S
                                                                    (S (S (S
                                                                    (S (S (S
                                                                    (S (S (S
                                                                    (S
                                                                    O)))))))))))))
                                                                    then 
                                                                    act_on s
                                                                    a
                                                                    (fun s1 ->
                                                                    Z.eqb v
                                                                    (cword s1
                                                                    a))
                                                                    none_acts
                                                                    (fun _ _ ->
                                                                    Some
                                                                    (set_ph x
                                                                    a O))
                                                                    else 
                                                                    if 
                                                                    (&&)
                                                                    (phis x a
                                                                    O)
                                                                    (at_pc s
                                                                    a PBody)
                                                                    then 
                                                                    act_on s
                                                                    a
                                                                    (fun s1 ->
                                                                    Z.eqb v
                                                                    (cword s1
                                                                    a))
                                                                    (fun s1 ->
                                                                    if 
                                                                    (&&)
                                                                    (Z.eqb v
                                                                    (Zpos XH))
                                                                    (negb
                                                                    (unwinding
                                                                    (s1.unwm
                                                                    a)))
                                                                    then 
                                                                    (CPoint
                                                                    a) :: []
                                                                    else [])
                                                                    (keep x)
                                                                    else None
                                                | _ -> None)
                                             | XH ->
                                               act_on s a (fun s1 ->
                                                 (&&) (at_pc s1 a PT1)
                                                   (eqb (s1.ipktm (c1 s1))
                                                     (zb v))) (one a) 
                                                 (keep x))
                                          | XO p6 ->
                                            (match p6 with
                                             | XI p7 ->
                                               (match p7 with
                                                | XH ->
                                                  if phis x a O
                                                  then act_on s a (fun s1 ->
                                                         (&&)
                                                           ((&&)
                                                             (at_pc s1 a
                                                               PPark)
                                                             (is_co
                                                               (s1.kindm a)))
                                                           (eqb
                                                             (s1.tokm
                                                               (s1.jbm a))
                                                             (zb v)))
                                                         (fun _ ->
                                                         if zb v
                                                         then (Step a) :: []
                                                         else [])
                                                         (fun s1 _ ->
                                                         match bind_obj x.opk
                                                                 (s1.jbm a) o with
                                                         | Some m ->
                                                           Some
                                                             (set_ph
                                                               (set_opk x m)
                                                               a
                                                               (if zb v
                                                                then 
                                                                  S (S (S O))
                                                                else 
                                                                  S (S (S (S
                                                                    (S O))))))
                                                         | None -> None)
                                                  else if phis x a (S (S (S
                                                            (S (S (S (S (S (S
                                                            O)))))))))
                                                       then Some { acts = [];
                                                              nxt =
                                                              (set_ph x a
                                                                (if zb v
                                                                 then 
                                                                   S (S (S (S
                                                                    (S (S (S
                                                                    (S (S (S
                                                                    O)))))))))
                                                                 else 
                                                                   S (S (S (S
                                                                    (S (S (S
                                                                    (S (S (S
                                                                    (S
                                                                    O)))))))))))) }
                                                       else None
                                                | _ -> None)
                                             | _ -> None)
                                          | XH ->
                                            act_on s a (fun s1 ->
                                              at_pc s1 a PBody) (fun _ ->
                                              (Finish (a,
                                              (Z.to_nat v))) :: []) (keep x))
                                       | XH ->
                                         act_on s a (fun s1 ->
                                           at_pc s1 a PDrop) (one a) 
                                           (keep x))
                                    | XO p4 ->
                                      (match p4 with
                                       | XI p5 ->
                                         (match p5 with
                                          | XI p6 ->
                                            (match p6 with
                                             | XH ->
                                               act_on s a (fun s1 ->
                                                 (&&) (at_pc s1 a PF1)
                                                   (is_upanic (s1.unwm a)))
                                                 none_acts (keep x)
                                             | _ -> None)
                                          | XO p6 ->
                                            (match p6 with
                                             | XI p7 ->
                                               (match p7 with
                                                | XH ->
                                                  if phis x a (S (S (S (S (S
                                                       O)))))
                                                  then act_on s a (fun s1 ->
                                                         (&&)
                                                           ((&&)
                                                             (at_pc s1 a
                                                               PPark)
                                                             (eqb
                                                               (s1.tokm
                                                                 (s1.jbm a))
                                                               (zb v)))
                                                           (Z.eqb
                                                             (x.opk
                                                               (s1.jbm a)) o))
                                                         (fun _ ->
                                                         if zb v
                                                         then (Step a) :: []
                                                         else []) (fun _ _ ->
                                                         Some
                                                         (set_ph x a
                                                           (if zb v
                                                            then O
                                                            else S (S O))))
                                                  else if phis x a (S (S (S
                                                            (S (S (S (S (S (S
                                                            (S (S O)))))))))))
                                                       then Some { acts = [];
                                                              nxt =
                                                              (set_ph x a O) }
                                                       else None
                                                | _ -> None)
                                             | XO _ -> None
                                             | XH ->
                                               act_on s a (fun s1 ->
                                                 (&&) (at_pc s1 a PW0)
                                                   (eqb (s1.jstm (c1 s1))
                                                     (zb v))) (one a)
                                                 (fun s1 _ ->
                                                 match bind_obj x.ojs 
                                                         (c1 s1) o with
                                                 | Some m ->
                                                   Some (set_ojs x m)
                                                 | None -> None))
                                          | XH ->
                                            act_on s a (fun s1 ->
                                              (&&)
                                                ((&&) (at_pc s1 a PPark)
                                                  (negb (is_co (s1.kindm a))))
                                                (phis x a O)) (one a)
                                              (fun s1 s3 ->
                                              match bind_obj x.opk (s1.jbm a)
                                                      o with
                                              | Some m ->
                                                Some
                                                  (set_ph (set_opk x m) a
                                                    (if at_pc s3 a PWW
                                                     then S O
                                                     else S (S (S (S (S (S (S
                                                            (S (S (S (S (S
                                                            O)))))))))))))
                                              | None -> None))
                                       | XO p5 ->
                                         (match p5 with
                                          | XI p6 ->
                                            (match p6 with
                                             | XI _ -> None
                                             | XO p7 ->
                                               (match p7 with
                                                | XH ->
                                                  if (&&)
                                                       (Nat.eqb (x.nest a) O)
                                                       ((||) (at_pc s a PJ0)
                                                         (at_pc s a PDrop))
                                                  then act_on s a (fun s1 ->
                                                         (&&)
                                                           ((&&)
                                                             (at_pc s1 a PJ0)
                                                             (is_co
                                                               (s1.kindm a)))
                                                           (Z.eqb v
                                                             (cword s1 a)))
                                                         (one a) (keep x)
                                                  else if Z.eqb v
                                                            (cwn s (x.nest a)
                                                              a)
                                                       then Some { acts = [];
                                                              nxt =
                                                              (set_nest x a
                                                                (S
                                                                (x.nest a))) }
                                                       else None
                                                | _ -> None)
                                             | XH ->
                                               act_on s a (fun s1 ->
                                                 (&&)
                                                   ((||) (at_pc s1 a PF1)
                                                     (at_pc s1 a PF2))
                                                   (negb (zb v))) (fun s1 ->
                                                 if at_pc s1 a PF1
                                                 then (Step a) :: ((Step
                                                        a) :: [])
                                                 else (Step a) :: [])
                                                 (fun _ _ ->
                                                 match bind_obj x.ojs a o with
                                                 | Some m ->
                                                   Some (set_ojs x m)
                                                 | None -> None))
                                          | XO _ -> None
                                          | XH ->
                                            (match x.pmap (Z.to_nat o) with
                                             | O -> None
                                             | S c ->
                                               act_on s a (fun s1 ->
                                                 at_pc s1 a PBody) (fun _ ->
                                                 (Join (a, c)) :: []) 
                                                 (keep x)))
                                       | XH ->
                                         act_on s a (fun s1 ->
                                           at_pc s1 a PBody) (fun _ -> (Open
                                           a) :: []) (keep x))
                                    | XH ->
                                      let n = s.nexta in
                                      act_on s a (fun s1 -> at_pc s1 a PBody)
                                        (fun _ -> (Spawn (a,
                                        (Z.to_nat v))) :: []) (fun _ _ ->
                                        Some
                                        (set_pmap x
                                          (upd x.pmap (Z.to_nat o) (S n)))))
                                 | XH -> None)
                              | _ -> None)
                           | None -> skip x))
                     | XO p1 ->
                       (match p1 with
                        | XI p2 ->
                          (match p2 with
                           | XI p3 ->
                             (match p3 with
                              | XO p4 ->
                                (match p4 with
                                 | XH ->
                                   (match tgt x ta with
                                    | Some _ -> skip x
                                    | None -> None)
                                 | _ ->
                                   (match task x ta with
                                    | Some a ->
                                      let c1 = fun s1 -> s1.jcm a in
                                      (match code with
                                       | Zpos p5 ->
                                         (match p5 with
                                          | XI p6 ->
                                            (match p6 with
                                             | XI p7 ->
                                               (match p7 with
                                                | XI p8 ->
                                                  (match p8 with
                                                   | XI p9 ->
                                                     (match p9 with
                                                      | XH ->
                                                        act_on s a (fun s1 ->
                                                          (&&)
                                                            (at_pc s1 a PRet)
                                                            (zb v)) (one a)
                                                          (keep x)
                                                      | _ -> None)
                                                   | XO p9 ->
                                                     (match p9 with
                                                      | XH ->
                                                        act_on s a (fun s1 ->
                                                          (&&)
                                                            ((&&)
                                                              (at_pc s1 a PW3)
                                                              (eqb
                                                                (is_some
                                                                  (s1.jwakem
                                                                    (c1 s1)))
                                                                (zb v)))
                                                            (Z.eqb
                                                              (x.ojw (c1 s1))
                                                              o)) (one a)
                                                          (keep x)
                                                      | _ -> None)
                                                   | XH -> None)
                                                | XO p8 ->
                                                  (match p8 with
                                                   | XI p9 ->
                                                     (match p9 with
                                                      | XI _ -> None
                                                      | XO p10 ->
                                                        (match p10 with
                                                         | XH ->
                                                           if negb
                                                                (Nat.eqb
                                                                  (x.nest a)
                                                                  O)
                                                           then if Z.eqb v
                                                                    (cwn s
                                                                    (x.nest a)
                                                                    a)
                                                                then skip x
                                                                else None
                                                           else if phis x a
                                                                    (S (S O))
                                                                then 
                                                                  act_on s a
                                                                    (fun s1 ->
                                                                    (&&)
                                                                    (at_pc s1
                                                                    a PPark)
                                                                    (Z.eqb v
                                                                    (cword s1
                                                                    a)))
                                                                    (one a)
                                                                    (fun s1 s3 ->
                                                                    Some
                                                                    (set_ph x
                                                                    a
                                                                    (if 
                                                                    s1.tokm
                                                                    (s1.jbm a)
                                                                    then 
                                                                    S (S (S
                                                                    (S (S (S
                                                                    O)))))
                                                                    else 
                                                                    if 
                                                                    at_pc s3
                                                                    a PWW
                                                                    then 
                                                                    S (S (S
                                                                    (S (S (S
                                                                    (S (S
                                                                    O)))))))
                                                                    else 
                                                                    if 
                                                                    raised s1
                                                                    s3 a
                                                                    then 
                                                                    S (S (S
                                                                    (S (S (S
                                                                    (S (S (S
                                                                    (S (S (S
                                                                    (S
                                                                    O))))))))))))
                                                                    else 
                                                                    S (S (S
                                                                    (S (S (S
                                                                    (S O)))))))))
                                                                else 
                                                                  act_on s a
                                                                    (fun s1 ->
                                                                    Z.eqb v
                                                                    (cword s1
                                                                    a))
                                                                    none_acts
                                                                    (keep x)
                                                         | _ -> None)
                                                      | XH ->
                                                        act_on s a (fun s1 ->
                                                          (&&)
                                                            (at_pc s1 a PT2)
                                                            (eqb
                                                              (is_some
                                                                (s1.panm
                                                                  (c1 s1)))
                                                              (zb v)))
                                                          (one a) (keep x))
                                                   | XO p9 ->
                                                     (match p9 with
                                                      | XI p10 ->
                                                        (match p10 with
                                                         | XH ->
                                                           if (||)
                                                                (phis x a (S
                                                                  (S (S O))))
                                                                (phis x a (S
                                                                  (S (S (S (S
                                                                  (S (S (S (S
                                                                  (S
                                                                  O)))))))))))
                                                           then Some { acts =
                                                                  []; nxt =
                                                                  (set_ph x a
                                                                    O) }
                                                           else None
                                                         | _ -> None)
                                                      | _ -> None)
                                                   | XH -> None)
                                                | XH ->
                                                  act_on s a (fun s1 ->
                                                    at_pc s1 a PBody)
                                                    (fun _ -> (Panic (a,
                                                    (Z.to_nat o))) :: [])
                                                    (keep x))
                                             | XO p7 ->
                                               (match p7 with
                                                | XI p8 ->
                                                  (match p8 with
                                                   | XI _ -> None
                                                   | XO p9 ->
                                                     (match p9 with
                                                      | XI p10 ->
                                                        (match p10 with
                                                         | XH ->
                                                           act_on s a
                                                             (fun s1 ->
                                                             (&&)
                                                               (at_pc s1 a
                                                                 PF4)
                                                               (is_co
                                                                 (s1.kindm
                                                                   (s1.bownerm
                                                                    (s1.awm a)))))
                                                             (one a)
                                                             (fun s1 _ ->
                                                             match bind_obj
                                                                    x.opk
                                                                    (s1.awm a)
                                                                    o with
                                                             | Some m ->
                                                               Some
                                                                 (set_opk x m)
                                                             | None -> None)
                                                         | _ -> None)
                                                      | XO _ -> None
                                                      | XH ->
                                                        act_on s a (fun s1 ->
                                                          at_pc s1 a PW1)
                                                          (one a)
                                                          (fun s1 _ ->
                                                          match bind_obj
                                                                  x.ojw
                                                                  (c1 s1) o with
                                                          | Some m ->
                                                            Some (set_ojw x m)
                                                          | None -> None))
                                                   | XH ->
                                                     if phis x a (S O)
                                                     then act_on s a
                                                            (fun s1 ->
                                                            (&&)
                                                              ((&&)
                                                                (at_pc s1 a
                                                                  PWW) 
                                                                (zb v))
                                                              (Z.eqb
                                                                (x.opk
                                                                  (s1.jbm a))
                                                                o)) (one a)
                                                            (fun _ _ -> Some
                                                            (set_ph x a O))
                                                     else if phis x a (S (S
                                                               (S (S (S (S (S
                                                               (S (S (S (S (S
                                                               O))))))))))))
                                                          then act_on s a
                                                                 (fun _ ->
                                                                 zb v)
                                                                 none_acts
                                                                 (fun _ _ ->
                                                                 Some
                                                                 (set_ph x a
                                                                   O))
                                                          else None)
                                                | XO p8 ->
                                                  (match p8 with
                                                   | XI p9 ->
                                                     (match p9 with
                                                      | XI _ -> None
                                                      | XO p10 ->
                                                        (match p10 with
                                                         | XH ->
                                                           (match x.nest a with
                                                            | O ->
                                                              act_on s a
                                                                (fun s1 ->
                                                                (&&)
                                                                  (at_pc s1 a
                                                                    PEn)
                                                                  (Z.eqb v
                                                                    (cword s1
                                                                    a)))
                                                                (one a)
                                                                (keep x)
                                                            | S n ->
                                                              if Z.eqb v
                                                                   (cwn s (S
                                                                    n) a)
                                                              then Some
                                                                    { acts =
                                                                    []; nxt =
                                                                    (set_nest
                                                                    x a n) }
                                                              else None)
                                                         | _ -> None)
                                                      | XH ->
                                                        act_on s a (fun s1 ->
                                                          (&&)
                                                            (at_pc s1 a PF3)
                                                            (eqb
                                                              (is_some
                                                                (s1.jwakem a))
                                                              (zb v)))
                                                          (one a) (fun _ _ ->
                                                          match bind_obj
                                                                  x.ojw a o with
                                                          | Some m ->
                                                            Some (set_ojw x m)
                                                          | None -> None))
                                                   | XO _ -> None
                                                   | XH ->
                                                     (match x.pmap
                                                              (Z.to_nat o) with
                                                      | O -> None
                                                      | S c ->
                                                        act_on s a (fun s1 ->
                                                          (&&)
                                                            ((&&)
                                                              (at_pc s1 a
                                                                PBody)
                                                              (Nat.eqb
                                                                (s1.gotm c)
                                                                (S O)))
                                                            (Z.eqb
                                                              (Z.of_nat
                                                                (s1.cvalm c))
                                                              v)) none_acts
                                                          (keep x)))
                                                | XH ->
                                                  act_on s a (fun s1 ->
                                                    at_pc s1 a PBody)
                                                    (fun _ -> (Close
                                                    a) :: []) (keep x))
                                             | XH -> None)
                                          | XO p6 ->
                                            (match p6 with
                                             | XI p7 ->
                                               (match p7 with
                                                | XI p8 ->
                                                  (match p8 with
                                                   | XI p9 ->
                                                     (match p9 with
                                                      | XH ->
                                                        act_on s a (fun s1 ->
                                                          (&&)
                                                            (at_pc s1 a PF1)
                                                            (negb
                                                              (unwinding
                                                                (s1.unwm a))))
                                                          none_acts (keep x)
                                                      | _ -> None)
                                                   | XO p9 ->
                                                     (match p9 with
                                                      | XH ->
                                                        act_on s a (fun s1 ->
                                                          (&&)
                                                            ((&&)
                                                              (at_pc s1 a PW2)
                                                              (eqb
                                                                (s1.jstm
                                                                  (c1 s1))
                                                                (zb v)))
                                                            (Z.eqb
                                                              (x.ojs (c1 s1))
                                                              o)) (one a)
                                                          (keep x)
                                                      | _ -> None)
                                                   | XH ->
                                                     act_on s a (fun s1 ->
                                                       (&&) (at_pc s1 a PF4)
                                                         (negb
                                                           (is_co
                                                             (s1.kindm
                                                               (s1.bownerm
                                                                 (s1.awm a))))))
                                                       (one a) (fun s1 _ ->
                                                       match bind_obj x.opk
                                                               (s1.awm a) o with
                                                       | Some m ->
                                                         Some (set_opk x m)
                                                       | None -> None))
                                                | XO p8 ->
                                                  (match p8 with
                                                   | XI p9 ->
                                                     (match p9 with
                                                      | XI _ -> None
                                                      | XO p10 ->
                                                        (match p10 with
                                                         | XH ->
                                                           if negb
                                                                (Nat.eqb
                                                                  (x.nest a)
                                                                  O)
                                                           then if Z.eqb v
                                                                    (cwn s
                                                                    (x.nest a)
                                                                    a)
                                                                then skip x
                                                                else None
                                                           else if at_pc s a
                                                                    PCk
                                                                then 
                                                                  act_on s a
                                                                    (fun s1 ->
                                                                    Z.eqb v
                                                                    (cword s1
                                                                    a))
                                                                    (one a)
                                                                    (keep x)
                                                                else 
                                                                  if 
                                                                    phis x a
                                                                    (S (S (S
                                                                    (S (S (S
                                                                    (S (S
                                                                    O))))))))
                                                                  then 
                                                                    act_on s
                                                                    a
                                                                    (fun s1 ->
                                                                    (&&)
                                                                    (at_pc s1
                                                                    a PWW)
                                                                    (Z.eqb v
                                                                    (cword s1
                                                                    a)))
                                                                    (one a)
                                                                    (fun s1 s3 ->
                                                                    Some
                                                                    (set_ph x
                                                                    a
                                                                    (if 
                                                                    raised s1
                                                                    s3 a
                                                                    then O
                                                                    else 
                                                                    S (S (S
                                                                    (S (S (S
                                                                    (S (S (S
                                                                    O)))))))))))
                                                                  else 
                                                                    if 
                                                                    phis x a
                                                                    (S (S (S
                                                                    (S (S (S
                                                                    O))))))
                                                                    then 
                                                                    act_on s
                                                                    a
                                                                    (fun s1 ->
                                                                    (&&)
                                                                    (Z.eqb v
                                                                    (cword s1
                                                                    a))
                                                                    (negb
                                                                    ((&&)
                                                                    (cancel_due
                                                                    s1 a)
                                                                    (negb
                                                                    (unwinding
                                                                    (s1.unwm
                                                                    a))))))
                                                                    none_acts
                                                                    (fun _ _ ->
                                                                    Some
                                                                    (set_ph x
                                                                    a (S (S
                                                                    (S (S (S
                                                                    (S (S (S
                                                                    (S
                                                                    O)))))))))))
                                                                    else 
                                                                    if 
                                                                    phis x a
                                                                    (S (S (S
                                                                    (S (S (S
                                                                    (S
                                                                    O)))))))
                                                                    then 
                                                                    act_on s
                                                                    a
                                                                    (fun s1 ->
                                                                    Z.eqb v
                                                                    (cword s1
                                                                    a))
                                                                    none_acts
                                                                    (fun _ _ ->
                                                                    Some
                                                                    (set_ph x
                                                                    a (S (S
                                                                    (S (S (S
                                                                    (S (S (S
                                                                    (S
                                                                    O)))))))))))
                                                                    else 
                                                                    if 
                                                                    phis x a
                                                                    (S (S (S
                                                                    (S (S (S
                                                                    (S (S (S
                                                                    (S (S (S
                                                                    (S
                                                                    O)))))))))))))
                                                                    then 
                                                                    act_on s
                                                                    a
                                                                    (fun s1 ->
                                                                    Z.eqb v
                                                                    (cword s1
                                                                    a))
                                                                    none_acts
                                                                    (fun _ _ ->
                                                                    Some
                                                                    (set_ph x
                                                                    a O))
                                                                    else 
                                                                    if 
                                                                    (&&)
                                                                    (phis x a
                                                                    O)
                                                                    (at_pc s
                                                                    a PBody)
                                                                    then 
                                                                    act_on s
                                                                    a
                                                                    (fun s1 ->
                                                                    Z.eqb v
                                                                    (cword s1
                                                                    a))
                                                                    (fun s1 ->
                                                                    if 
                                                                    (&&)
                                                                    (Z.eqb v
                                                                    (Zpos XH))
                                                                    (negb
                                                                    (unwinding
                                                                    (s1.unwm
                                                                    a)))
                                                                    then 
                                                                    (CPoint
                                                                    a) :: []
                                                                    else [])
                                                                    (keep x)
                                                                    else None
                                                         | _ -> None)
                                                      | XH ->
                                                        act_on s a (fun s1 ->
                                                          (&&)
                                                            (at_pc s1 a PT1)
                                                            (eqb
                                                              (s1.ipktm
                                                                (c1 s1))
                                                              (zb v)))
                                                          (one a) (keep x))
                                                   | XO p9 ->
                                                     (match p9 with
                                                      | XI p10 ->
                                                        (match p10 with
                                                         | XH ->
                                                           if phis x a O
                                                           then act_on s a
                                                                  (fun s1 ->
                                                                  (&&)
                                                                    ((&&)
                                                                    (at_pc s1
                                                                    a PPark)
                                                                    (is_co
                                                                    (s1.kindm
                                                                    a)))
                                                                    (eqb
                                                                    (s1.tokm
                                                                    (s1.jbm a))
                                                                    (zb v)))
                                                                  (fun _ ->
                                                                  if zb v
                                                                  then 
                                                                    (Step
                                                                    a) :: []
                                                                  else [])
                                                                  (fun s1 _ ->
                                                                  match 
                                                                  bind_obj
                                                                    x.opk
                                                                    (s1.jbm a)
                                                                    o with
                                                                  | Some m ->
                                                                    Some
                                                                    (set_ph
                                                                    (set_opk
                                                                    x m) a
                                                                    (if zb v
                                                                    then 
                                                                    S (S (S
                                                                    O))
                                                                    else 
                                                                    S (S (S
                                                                    (S (S
                                                                    O))))))
                                                                  | None ->
                                                                    None)
                                                           else if phis x a
                                                                    (S (S (S
                                                                    (S (S (S
                                                                    (S (S (S
                                                                    O)))))))))
                                                                then 
                                                                  Some
                                                                    { acts =
                                                                    []; nxt =
                                                                    (set_ph x
                                                                    a
                                                                    (if zb v
                                                                    then 
                                                                    S (S (S
                                                                    (S (S (S
                                                                    (S (S (S
                                                                    (S
                                                                    O)))))))))
                                                                    else 
                                                                    S (S (S
                                                                    (S (S (S
                                                                    (S (S (S
                                                                    (S (S
                                                                    O)))))))))))) }
                                                                else None
                                                         | _ -> None)
                                                      | _ -> None)
                                                   | XH ->
                                                     act_on s a (fun s1 ->
                                                       at_pc s1 a PBody)
                                                       (fun _ -> (Finish (a,
                                                       (Z.to_nat v))) :: [])
                                                       (keep x))
                                                | XH ->
                                                  act_on s a (fun s1 ->
                                                    at_pc s1 a PDrop) 
                                                    (one a) (keep x))
                                             | XO p7 ->
                                               (match p7 with
                                                | XI p8 ->
                                                  (match p8 with
                                                   | XI p9 ->
                                                     (match p9 with
                                                      | XH ->
                                                        act_on s a (fun s1 ->
                                                          (&&)
                                                            (at_pc s1 a PF1)
                                                            (is_upanic
                                                              (s1.unwm a)))
                                                          none_acts (keep x)
                                                      | _ -> None)
                                                   | XO p9 ->
                                                     (match p9 with
                                                      | XI p10 ->
                                                        (match p10 with
                                                         | XH ->
                                                           if phis x a (S (S
                                                                (S (S (S
                                                                O)))))
                                                           then act_on s a
                                                                  (fun s1 ->
                                                                  (&&)
                                                                    ((&&)
                                                                    (at_pc s1
                                                                    a PPark)
                                                                    (eqb
                                                                    (s1.tokm
                                                                    (s1.jbm a))
                                                                    (zb v)))
                                                                    (Z.eqb
                                                                    (x.opk
                                                                    (s1.jbm a))
                                                                    o))
                                                                  (fun _ ->
                                                                  if zb v
                                                                  then 
                                                                    (Step
                                                                    a) :: []
                                                                  else [])
                                                                  (fun _ _ ->
                                                                  Some
                                                                  (set_ph x a
                                                                    (
                                                                    if zb v
                                                                    then O
                                                                    else 
                                                                    S (S O))))
                                                           else if phis x a
                                                                    (S (S (S
                                                                    (S (S (S
                                                                    (S (S (S
                                                                    (S (S
                                                                    O)))))))))))
                                                                then 
                                                                  Some
                                                                    { acts =
                                                                    []; nxt =
                                                                    (set_ph x
                                                                    a O) }
                                                                else None
                                                         | _ -> None)
                                                      | XO _ -> None
                                                      | XH ->
                                                        act_on s a (fun s1 ->
                                                          (&&)
                                                            (at_pc s1 a PW0)
                                                            (eqb
                                                              (s1.jstm
                                                                (c1 s1))
                                                              (zb v)))
                                                          (one a)
                                                          (fun s1 _ ->
                                                          match bind_obj
                                                                  x.ojs
                                                                  (c1 s1) o with
                                                          | Some m ->
                                                            Some (set_ojs x m)
                                                          | None -> None))
                                                   | XH ->
                                                     act_on s a (fun s1 ->
                                                       (&&)
                                                         ((&&)
                                                           (at_pc s1 a PPark)
                                                           (negb
                                                             (is_co
                                                               (s1.kindm a))))
                                                         (phis x a O))
                                                       (one a) (fun s1 s3 ->
                                                       match bind_obj x.opk
                                                               (s1.jbm a) o with
                                                       | Some m ->
                                                         Some
                                                           (set_ph
                                                             (set_opk x m) a
                                                             (if at_pc s3 a
                                                                   PWW
                                                              then S O
                                                              else S (S (S (S
                                                                    (S (S (S
                                                                    (S (S (S
                                                                    (S (S
                                                                    O)))))))))))))
                                                       | None -> None))
                                                | XO p8 ->
                                                  (match p8 with
                                                   | XI p9 ->
                                                     (match p9 with
                                                      | XI _ -> None
                                                      | XO p10 ->
                                                        (match p10 with
                                                         | XH ->
                                                           if (&&)
                                                                (Nat.eqb
                                                                  (x.nest a)
                                                                  O)
                                                                ((||)
                                                                  (at_pc s a
                                                                    PJ0)
                                                                  (at_pc s a
                                                                    PDrop))
                                                           then act_on s a
                                                                  (fun s1 ->
                                                                  (&&)
                                                                    ((&&)
                                                                    (at_pc s1
                                                                    a PJ0)
                                                                    (is_co
                                                                    (s1.kindm
                                                                    a)))
                                                                    (Z.eqb v
                                                                    (cword s1
                                                                    a)))
                                                                  (one a)
                                                                  (keep x)
                                                           else if Z.eqb v
                                                                    (cwn s
                                                                    (x.nest a)
                                                                    a)
                                                                then 
                                                                  Some
                                                                    { acts =
                                                                    []; nxt =
                                                                    (set_nest
                                                                    x a (S
                                                                    (x.nest a))) }
                                                                else None
                                                         | _ -> None)
                                                      | XH ->
                                                        act_on s a (fun s1 ->
                                                          (&&)
                                                            ((||)
                                                              (at_pc s1 a PF1)
                                                              (at_pc s1 a PF2))
                                                            (negb (zb v)))
                                                          (fun s1 ->
                                                          if at_pc s1 a PF1
                                                          then (Step
                                                                 a) :: ((Step
                                                                 a) :: [])
                                                          else (Step a) :: [])
                                                          (fun _ _ ->
                                                          match bind_obj
                                                                  x.ojs a o with
                                                          | Some m ->
                                                            Some (set_ojs x m)
                                                          | None -> None))
                                                   | XO _ -> None
                                                   | XH ->
                                                     (match x.pmap
                                                              (Z.to_nat o) with
                                                      | O -> None
                                                      | S c ->
                                                        act_on s a (fun s1 ->
                                                          at_pc s1 a PBody)
                                                          (fun _ -> (Join (a,
                                                          c)) :: []) 
                                                          (keep x)))
                                                | XH ->
                                                  act_on s a (fun s1 ->
                                                    at_pc s1 a PBody)
                                                    (fun _ -> (Open a) :: [])
                                                    (keep x))
                                             | XH ->
                                               let n = s.nexta in
                                               act_on s a (fun s1 ->
                                                 at_pc s1 a PBody) (fun _ ->
                                                 (Spawn (a,
                                                 (Z.to_nat v))) :: [])
                                                 (fun _ _ -> Some
                                                 (set_pmap x
                                                   (upd x.pmap (Z.to_nat o)
                                                     (S n)))))
                                          | XH -> None)
                                       | _ -> None)
                                    | None -> skip x))
                              | _ ->
                                (match task x ta with
                                 | Some a ->
                                   let c1 = fun s1 -> s1.jcm a in
                                   (match code with
                                    | Zpos p4 ->
                                      (match p4 with
                                       | XI p5 ->
                                         (match p5 with
                                          | XI p6 ->
                                            (match p6 with
                                             | XI p7 ->
                                               (match p7 with
                                                | XI p8 ->
                                                  (match p8 with
                                                   | XH ->
                                                     act_on s a (fun s1 ->
                                                       (&&) (at_pc s1 a PRet)
                                                         (zb v)) (one a)
                                                       (keep x)
                                                   | _ -> None)
                                                | XO p8 ->
                                                  (match p8 with
                                                   | XH ->
                                                     act_on s a (fun s1 ->
                                                       (&&)
                                                         ((&&)
                                                           (at_pc s1 a PW3)
                                                           (eqb
                                                             (is_some
                                                               (s1.jwakem
                                                                 (c1 s1)))
                                                             (zb v)))
                                                         (Z.eqb
                                                           (x.ojw (c1 s1)) o))
                                                       (one a) (keep x)
                                                   | _ -> None)
                                                | XH -> None)
                                             | XO p7 ->
                                               (match p7 with
                                                | XI p8 ->
                                                  (match p8 with
                                                   | XI _ -> None
                                                   | XO p9 ->
                                                     (match p9 with
                                                      | XH ->
                                                        if negb
                                                             (Nat.eqb
                                                               (x.nest a) O)
                                                        then if Z.eqb v
                                                                  (cwn s
                                                                    (x.nest a)
                                                                    a)
                                                             then skip x
                                                             else None
                                                        else if phis x a (S
                                                                  (S O))
                                                             then act_on s a
                                                                    (fun s1 ->
                                                                    (&&)
                                                                    (at_pc s1
                                                                    a PPark)
                                                                    (Z.eqb v
                                                                    (cword s1
                                                                    a)))
                                                                    (one a)
                                                                    (fun s1 s3 ->
                                                                    Some
                                                                    (set_ph x
                                                                    a
                                                                    (if 
                                                                    s1.tokm
                                                                    (s1.jbm a)
                                                                    then 
                                                                    S (S (S
                                                                    (S (S (S
                                                                    O)))))
                                                                    else 
                                                                    if 
                                                                    at_pc s3
                                                                    a PWW
                                                                    then 
                                                                    S (S (S
                                                                    (S (S (S
                                                                    (S (S
                                                                    O)))))))
                                                                    else 
                                                                    if 
                                                                    raised s1
                                                                    s3 a
                                                                    then 
                                                                    S (S (S
                                                                    (S (S (S
                                                                    (S (S (S
                                                                    (S (S (S
                                                                    (S
                                                                    O))))))))))))
                                                                    else 
                                                                    S (S (S
                                                                    (S (S (S
                                                                    (S O)))))))))
                                                             else act_on s a
                                                                    (fun s1 ->
                                                                    Z.eqb v
                                                                    (cword s1
                                                                    a))
                                                                    none_acts
                                                                    (keep x)
                                                      | _ -> None)
                                                   | XH ->
                                                     act_on s a (fun s1 ->
                                                       (&&) (at_pc s1 a PT2)
                                                         (eqb
                                                           (is_some
                                                             (s1.panm (c1 s1)))
                                                           (zb v))) (one a)
                                                       (keep x))
                                                | XO p8 ->
                                                  (match p8 with
                                                   | XI p9 ->
                                                     (match p9 with
                                                      | XH ->
                                                        if (||)
                                                             (phis x a (S (S
                                                               (S O))))
                                                             (phis x a (S (S
                                                               (S (S (S (S (S
                                                               (S (S (S
                                                               O)))))))))))
                                                        then Some { acts =
                                                               []; nxt =
                                                               (set_ph x a O) }
                                                        else None
                                                      | _ -> None)
                                                   | _ -> None)
                                                | XH -> None)
                                             | XH ->
                                               act_on s a (fun s1 ->
                                                 at_pc s1 a PBody) (fun _ ->
                                                 (Panic (a,
                                                 (Z.to_nat o))) :: [])
                                                 (keep x))
                                          | XO p6 ->
                                            (match p6 with
                                             | XI p7 ->
                                               (match p7 with
                                                | XI _ -> None
                                                | XO p8 ->
                                                  (match p8 with
                                                   | XI p9 ->
                                                     (match p9 with
                                                      | XH ->
                                                        act_on s a (fun s1 ->
                                                          (&&)
                                                            (at_pc s1 a PF4)
                                                            (is_co
                                                              (s1.kindm
                                                                (s1.bownerm
                                                                  (s1.awm a)))))
                                                          (one a)
                                                          (fun s1 _ ->
                                                          match bind_obj
                                                                  x.opk
                                                                  (s1.awm a) o with
                                                          | Some m ->
                                                            Some (set_opk x m)
                                                          | None -> None)
                                                      | _ -> None)
                                                   | XO _ -> None
                                                   | XH ->
                                                     act_on s a (fun s1 ->
                                                       at_pc s1 a PW1)
                                                       (one a) (fun s1 _ ->
                                                       match bind_obj x.ojw
                                                               (c1 s1) o with
                                                       | Some m ->
                                                         Some (set_ojw x m)
                                                       | None -> None))
                                                | XH ->
                                                  if phis x a (S O)
                                                  then act_on s a (fun s1 ->
                                                         (&&)
                                                           ((&&)
                                                             (at_pc s1 a PWW)
                                                             (zb v))
                                                           (Z.eqb
                                                             (x.opk
                                                               (s1.jbm a)) o))
                                                         (one a) (fun _ _ ->
                                                         Some (set_ph x a O))
                                                  else if phis x a (S (S (S
                                                            (S (S (S (S (S (S
                                                            (S (S (S
                                                            O))))))))))))
                                                       then act_on s a
                                                              (fun _ -> 
                                                              zb v) none_acts
                                                              (fun _ _ ->
                                                              Some
                                                              (set_ph x a O))
                                                       else None)
                                             | XO p7 ->
                                               (match p7 with
                                                | XI p8 ->
                                                  (match p8 with
                                                   | XI _ -> None
                                                   | XO p9 ->
                                                     (match p9 with
                                                      | XH ->
                                                        (match x.nest a with
                                                         | O ->
                                                           act_on s a
                                                             (fun s1 ->
                                                             (&&)
                                                               (at_pc s1 a
                                                                 PEn)
                                                               (Z.eqb v
                                                                 (cword s1 a)))
                                                             (one a) 
                                                             (keep x)
                                                         | S n ->
                                                           if Z.eqb v
                                                                (cwn s (S n)
                                                                  a)
                                                           then Some { acts =
                                                                  []; nxt =
                                                                  (set_nest x
                                                                    a n) }
                                                           else None)
                                                      | _ -> None)
                                                   | XH ->
                                                     act_on s a (fun s1 ->
                                                       (&&) (at_pc s1 a PF3)
                                                         (eqb
                                                           (is_some
                                                             (s1.jwakem a))
                                                           (zb v))) (one a)
                                                       (fun _ _ ->
                                                       match bind_obj x.ojw a
                                                               o with
                                                       | Some m ->
                                                         Some (set_ojw x m)
                                                       | None -> None))
                                                | XO _ -> None
                                                | XH ->
                                                  (match x.pmap (Z.to_nat o) with
                                                   | O -> None
                                                   | S c ->
                                                     act_on s a (fun s1 ->
                                                       (&&)
                                                         ((&&)
                                                           (at_pc s1 a PBody)
                                                           (Nat.eqb
                                                             (s1.gotm c) (S
                                                             O)))
                                                         (Z.eqb
                                                           (Z.of_nat
                                                             (s1.cvalm c)) v))
                                                       none_acts (keep x)))
                                             | XH ->
                                               act_on s a (fun s1 ->
                                                 at_pc s1 a PBody) (fun _ ->
                                                 (Close a) :: []) (keep x))
                                          | XH -> None)
                                       | XO p5 ->
                                         (match p5 with
                                          | XI p6 ->
                                            (match p6 with
                                             | XI p7 ->
                                               (match p7 with
                                                | XI p8 ->
                                                  (match p8 with
                                                   | XH ->
                                                     act_on s a (fun s1 ->
                                                       (&&) (at_pc s1 a PF1)
                                                         (negb
                                                           (unwinding
                                                             (s1.unwm a))))
                                                       none_acts (keep x)
                                                   | _ -> None)
                                                | XO p8 ->
                                                  (match p8 with
                                                   | XH ->
                                                     act_on s a (fun s1 ->
                                                       (&&)
                                                         ((&&)
                                                           (at_pc s1 a PW2)
                                                           (eqb
                                                             (s1.jstm (c1 s1))
                                                             (zb v)))
                                                         (Z.eqb
                                                           (x.ojs (c1 s1)) o))
                                                       (one a) (keep x)
                                                   | _ -> None)
                                                | XH ->
                                                  act_on s a (fun s1 ->
                                                    (&&) (at_pc s1 a PF4)
                                                      (negb
                                                        (is_co
                                                          (s1.kindm
                                                            (s1.bownerm
                                                              (s1.awm a))))))
                                                    (one a) (fun s1 _ ->
                                                    match bind_obj x.opk
                                                            (s1.awm a) o with
                                                    | Some m ->
                                                      Some (set_opk x m)
                                                    | None -> None))
                                             | XO p7 ->
                                               (match p7 with
                                                | XI p8 ->
                                                  (match p8 with
                                                   | XI _ -> None
                                                   | XO p9 ->
                                                     (match p9 with
                                                      | XH ->
                                                        if negb
                                                             (Nat.eqb
                                                               (x.nest a) O)
                                                        then if Z.eqb v
                                                                  (cwn s
                                                                    (x.nest a)
                                                                    a)
                                                             then skip x
                                                             else None
                                                        else if at_pc s a PCk
                                                             then act_on s a
                                                                    (fun s1 ->
                                                                    Z.eqb v
                                                                    (cword s1
                                                                    a))
                                                                    (one a)
                                                                    (keep x)
                                                             else if 
                                                                    phis x a
                                                                    (S (S (S
                                                                    (S (S (S
                                                                    (S (S
                                                                    O))))))))
                                                                  then 
                                                                    act_on s
                                                                    a
                                                                    (fun s1 ->
                                                                    (&&)
                                                                    (at_pc s1
                                                                    a PWW)
                                                                    (Z.eqb v
                                                                    (cword s1
                                                                    a)))
                                                                    (one a)
                                                                    (fun s1 s3 ->
                                                                    Some
                                                                    (set_ph x
                                                                    a
                                                                    (if 
                                                                    raised s1
                                                                    s3 a
                                                                    then O
                                                                    else 
                                                                    S (S (S
                                                                    (S (S (S
                                                                    (S (S (S
                                                                    O)))))))))))
                                                                  else 
                                                                    if 
                                                                    phis x a
                                                                    (S (S (S
                                                                    (S (S (S
                                                                    O))))))
                                                                    then 
                                                                    act_on s
                                                                    a
                                                                    (fun s1 ->
                                                                    (&&)
                                                                    (Z.eqb v
                                                                    (cword s1
                                                                    a))
                                                                    (negb
                                                                    ((&&)
                                                                    (cancel_due
                                                                    s1 a)
                                                                    (negb
                                                                    (unwinding
                                                                    (s1.unwm
                                                                    a))))))
                                                                    none_acts
                                                                    (fun _ _ ->
                                                                    Some
                                                                    (set_ph x
                                                                    a (S (S
                                                                    (S (S (S
                                                                    (S (S (S
                                                                    (S
                                                                    O)))))))))))
                                                                    else 
                                                                    if 
                                                                    phis x a
                                                                    (S (S (S
                                                                    (S (S (S
                                                                    (S
                                                                    O)))))))
                                                                    then 
                                                                    act_on s
                                                                    a
                                                                    (fun s1 ->
                                                                    Z.eqb v
                                                                    (cword s1
                                                                    a))
                                                                    none_acts
                                                                    (fun _ _ ->
                                                                    Some
                                                                    (set_ph x
                                                                    a (S (S
                                                                    (S (S (S
                                                                    (S (S (S
                                                                    (S
                                                                    O)))))))))))
                                                                    else 
                                                                    if 
                                                                    phis x a
                                                                    (S (S (S
                                                                    (S (S (S
                                                                    (S (S (S
                                                                    (S (S (S
                                                                    (S
                                                                    O)))))))))))))
                                                                    then 
                                                                    act_on s
                                                                    a
                                                                    (fun s1 ->
                                                                    Z.eqb v
                                                                    (cword s1
                                                                    a))
                                                                    none_acts
                                                                    (fun _ _ ->
                                                                    Some
                                                                    (set_ph x
                                                                    a O))
                                                                    else 
                                                                    if 
                                                                    (&&)
                                                                    (phis x a
                                                                    O)
                                                                    (at_pc s
                                                                    a PBody)
                                                                    then 
                                                                    act_on s
                                                                    a
                                                                    (fun s1 ->
                                                                    Z.eqb v
                                                                    (cword s1
                                                                    a))
                                                                    (fun s1 ->
                                                                    if 
                                                                    (&&)
                                                                    (Z.eqb v
                                                                    (Zpos XH))
                                                                    (negb
                                                                    (unwinding
                                                                    (s1.unwm
                                                                    a)))
                                                                    then 
                                                                    (CPoint
                                                                    a) :: []
                                                                    else [])
                                                                    (keep x)
                                                                    else None
                                                      | _ -> None)
                                                   | XH ->
                                                     act_on s a (fun s1 ->
                                                       (&&) (at_pc s1 a PT1)
                                                         (eqb
                                                           (s1.ipktm (c1 s1))
                                                           (zb v))) (one a)
                                                       (keep x))
                                                | XO p8 ->
                                                  (match p8 with
                                                   | XI p9 ->
                                                     (match p9 with
                                                      | XH ->
                                                        if phis x a O
                                                        then act_on s a
                                                               (fun s1 ->
                                                               (&&)
                                                                 ((&&)
                                                                   (at_pc s1
                                                                    a PPark)
                                                                   (is_co
                                                                    (s1.kindm
                                                                    a)))
                                                                 (eqb
                                                                   (s1.tokm
                                                                    (s1.jbm a))
                                                                   (zb v)))
                                                               (fun _ ->
                                                               if zb v
                                                               then (Step
                                                                    a) :: []
                                                               else [])
                                                               (fun s1 _ ->
                                                               match 
                                                               bind_obj x.opk
                                                                 (s1.jbm a) o with
                                                               | Some m ->
                                                                 Some
                                                                   (set_ph
                                                                    (set_opk
                                                                    x m) a
                                                                    (if zb v
                                                                    then 
                                                                    S (S (S
                                                                    O))
                                                                    else 
                                                                    S (S (S
                                                                    (S (S
                                                                    O))))))
                                                               | None -> None)
                                                        else if phis x a (S
                                                                  (S (S (S (S
                                                                  (S (S (S (S
                                                                  O)))))))))
                                                             then Some
                                                                    { acts =
                                                                    []; nxt =
                                                                    (set_ph x
                                                                    a
                                                                    (if zb v
                                                                    then 
                                                                    S (S (S
                                                                    (S (S (S
                                                                    (S (S (S
                                                                    (S
                                                                    O)))))))))
                                                                    else 
                                                                    S (S (S
                                                                    (S (S (S
                                                                    (S (S (S
                                                                    (S (S
                                                                    O)))))))))))) }
                                                             else None
                                                      | _ -> None)
                                                   | _ -> None)
                                                | XH ->
                                                  act_on s a (fun s1 ->
                                                    at_pc s1 a PBody)
                                                    (fun _ -> (Finish (a,
                                                    (Z.to_nat v))) :: [])
                                                    (keep x))
                                             | XH ->
                                               act_on s a (fun s1 ->
                                                 at_pc s1 a PDrop) (one a)
                                                 (keep x))
                                          | XO p6 ->
                                            (match p6 with
                                             | XI p7 ->
                                               (match p7 with
                                                | XI p8 ->
                                                  (match p8 with
                                                   | XH ->
                                                     act_on s a (fun s1 ->
                                                       (&&) (at_pc s1 a PF1)
                                                         (is_upanic
                                                           (s1.unwm a)))
                                                       none_acts (keep x)
                                                   | _ -> None)
                                                | XO p8 ->
                                                  (match p8 with
                                                   | XI p9 ->
                                                     (match p9 with
                                                      | XH ->
                                                        if phis x a (S (S (S
                                                             (S (S O)))))
                                                        then act_on s a
                                                               (fun s1 ->
                                                               (&&)
                                                                 ((&&)
                                                                   (at_pc s1
                                                                    a PPark)
                                                                   (eqb
                                                                    (s1.tokm
                                                                    (s1.jbm a))
                                                                    (zb v)))
                                                                 (Z.eqb
                                                                   (x.opk
                                                                    (s1.jbm a))
                                                                   o))
                                                               (fun _ ->
                                                               if zb v
                                                               then (Step
                                                                    a) :: []
                                                               else [])
                                                               (fun _ _ ->
                                                               Some
                                                               (set_ph x a
                                                                 (if zb v
                                                                  then O
                                                                  else S (S O))))
                                                        else if phis x a (S
                                                                  (S (S (S (S
                                                                  (S (S (S (S
                                                                  (S (S
                                                                  O)))))))))))
                                                             then Some
                                                                    { acts =
                                                                    []; nxt =
                                                                    (set_ph x
                                                                    a O) }
                                                             else None
                                                      | _ -> None)
                                                   | XO _ -> None
                                                   | XH ->
                                                     act_on s a (fun s1 ->
                                                       (&&) (at_pc s1 a PW0)
                                                         (eqb
                                                           (s1.jstm (c1 s1))
                                                           (zb v))) (one a)
                                                       (fun s1 _ ->
                                                       match bind_obj x.ojs
                                                               (c1 s1) o with
                                                       | Some m ->
                                                         Some (set_ojs x m)
                                                       | None -> None))
                                                | XH ->
                                                  act_on s a (fun s1 ->
                                                    (&&)
                                                      ((&&)
                                                        (at_pc s1 a PPark)
                                                        (negb
                                                          (is_co (s1.kindm a))))
                                                      (phis x a O)) (one a)
                                                    (fun s1 s3 ->
                                                    match bind_obj x.opk
                                                            (s1.jbm a) o with
                                                    | Some m ->
                                                      Some
                                                        (set_ph (set_opk x m)
                                                          a
                                                          (if at_pc s3 a PWW
                                                           then S O
                                                           else S (S (S (S (S
                                                                  (S (S (S (S
                                                                  (S (S (S
                                                                  O)))))))))))))
                                                    | None -> None))
                                             | XO p7 ->
                                               (match p7 with
                                                | XI p8 ->
                                                  (match p8 with
                                                   | XI _ -> None
                                                   | XO p9 ->
                                                     (match p9 with
                                                      | XH ->
                                                        if (&&)
                                                             (Nat.eqb
                                                               (x.nest a) O)
                                                             ((||)
                                                               (at_pc s a PJ0)
                                                               (at_pc s a
                                                                 PDrop))
                                                        then act_on s a
                                                               (fun s1 ->
                                                               (&&)
                                                                 ((&&)
                                                                   (at_pc s1
                                                                    a PJ0)
                                                                   (is_co
                                                                    (s1.kindm
                                                                    a)))
                                                                 (Z.eqb v
                                                                   (cword s1
                                                                    a)))
                                                               (one a)
                                                               (keep x)
                                                        else if Z.eqb v
                                                                  (cwn s
                                                                    (x.nest a)
                                                                    a)
                                                             then Some
                                                                    { acts =
                                                                    []; nxt =
                                                                    (set_nest
                                                                    x a (S
                                                                    (x.nest a))) }
                                                             else None
                                                      | _ -> None)
                                                   | XH ->
                                                     act_on s a (fun s1 ->
                                                       (&&)
                                                         ((||)
                                                           (at_pc s1 a PF1)
                                                           (at_pc s1 a PF2))
                                                         (negb (zb v)))
                                                       (fun s1 ->
                                                       if at_pc s1 a PF1
                                                       then (Step
                                                              a) :: ((Step
                                                              a) :: [])
                                                       else (Step a) :: [])
                                                       (fun _ _ ->
                                                       match bind_obj x.ojs a
                                                               o with
                                                       | Some m ->
                                                         Some (set_ojs x m)
                                                       | None -> None))
                                                | XO _ -> None
                                                | XH ->
                                                  (match x.pmap (Z.to_nat o) with
                                                   | O -> None
                                                   | S c ->
                                                     act_on s a (fun s1 ->
                                                       at_pc s1 a PBody)
                                                       (fun _ -> (Join (a,
                                                       c)) :: []) (keep x)))
                                             | XH ->
                                               act_on s a (fun s1 ->
                                                 at_pc s1 a PBody) (fun _ ->
                                                 (Open a) :: []) (keep x))
                                          | XH ->
                                            let n = s.nexta in
                                            act_on s a (fun s1 ->
                                              at_pc s1 a PBody) (fun _ ->
                                              (Spawn (a,
                                              (Z.to_nat v))) :: [])
                                              (fun _ _ -> Some
                                              (set_pmap x
                                                (upd x.pmap (Z.to_nat o) (S
                                                  n)))))
                                       | XH -> None)
                                    | _ -> None)
                                 | None -> skip x))
                           | _ ->
                             (match task x ta with
                              | Some a ->
                                let c1 = fun s1 -> s1.jcm a in
                                (match code with
                                 | Zpos p3 ->
                                   (match p3 with
                                    | XI p4 ->
                                      (match p4 with
                                       | XI p5 ->
                                         (match p5 with
                                          | XI p6 ->
                                            (match p6 with
                                             | XI p7 ->
                                               (match p7 with
                                                | XH ->
                                                  act_on s a (fun s1 ->
                                                    (&&) (at_pc s1 a PRet)
                                                      (zb v)) (one a) 
                                                    (keep x)
                                                | _ -> None)
                                             | XO p7 ->
                                               (match p7 with
                                                | XH ->
                                                  act_on s a (fun s1 ->
                                                    (&&)
                                                      ((&&) (at_pc s1 a PW3)
                                                        (eqb
                                                          (is_some
                                                            (s1.jwakem
                                                              (c1 s1)))
                                                          (zb v)))
                                                      (Z.eqb (x.ojw (c1 s1))
                                                        o)) (one a) (keep x)
                                                | _ -> None)
                                             | XH -> None)
                                          | XO p6 ->
                                            (match p6 with
                                             | XI p7 ->
                                               (match p7 with
                                                | XI _ -> None
                                                | XO p8 ->
                                                  (match p8 with
                                                   | XH ->
                                                     if negb
                                                          (Nat.eqb (x.nest a)
                                                            O)
                                                     then if Z.eqb v
                                                               (cwn s
                                                                 (x.nest a) a)
                                                          then skip x
                                                          else None
                                                     else if phis x a (S (S
                                                               O))
                                                          then act_on s a
                                                                 (fun s1 ->
                                                                 (&&)
                                                                   (at_pc s1
                                                                    a PPark)
                                                                   (Z.eqb v
                                                                    (cword s1
                                                                    a)))
                                                                 (one a)
                                                                 (fun s1 s3 ->
                                                                 Some
                                                                 (set_ph x a
                                                                   (if 
                                                                    s1.tokm
                                                                    (s1.jbm a)
                                                                    then 
                                                                    S (S (S
                                                                    (S (S (S
                                                                    O)))))
                                                                    else 
                                                                    if 
                                                                    at_pc s3
                                                                    a PWW
                                                                    then 
                                                                    S (S (S
                                                                    (S (S (S
                                                                    (S (S
                                                                    O)))))))
                                                                    else 
                                                                    if 
                                                                    raised s1
                                                                    s3 a
                                                                    then 
                                                                    S (S (S
                                                                    (S (S (S
                                                                    (S (S (S
                                                                    (S (S (S
                                                                    (S
                                                                    O))))))))))))
                                                                    else 
                                                                    S (S (S
                                                                    (S (S (S
                                                                    (S O)))))))))
                                                          else act_on s a
                                                                 (fun s1 ->
                                                                 Z.eqb v
                                                                   (cword s1
                                                                    a))
                                                                 none_acts
                                                                 (keep x)
                                                   | _ -> None)
                                                | XH ->
                                                  act_on s a (fun s1 ->
                                                    (&&) (at_pc s1 a PT2)
                                                      (eqb
                                                        (is_some
                                                          (s1.panm (c1 s1)))
                                                        (zb v))) (one a)
                                                    (keep x))
                                             | XO p7 ->
                                               (match p7 with
                                                | XI p8 ->
                                                  (match p8 with
                                                   | XH ->
                                                     if (||)
                                                          (phis x a (S (S (S
                                                            O))))
                                                          (phis x a (S (S (S
                                                            (S (S (S (S (S (S
                                                            (S O)))))))))))
                                                     then Some { acts = [];
                                                            nxt =
                                                            (set_ph x a O) }
                                                     else None
                                                   | _ -> None)
                                                | _ -> None)
                                             | XH -> None)
                                          | XH ->
                                            act_on s a (fun s1 ->
                                              at_pc s1 a PBody) (fun _ ->
                                              (Panic (a,
                                              (Z.to_nat o))) :: []) (keep x))
                                       | XO p5 ->
                                         (match p5 with
                                          | XI p6 ->
                                            (match p6 with
                                             | XI _ -> None
                                             | XO p7 ->
                                               (match p7 with
                                                | XI p8 ->
                                                  (match p8 with
                                                   | XH ->
                                                     act_on s a (fun s1 ->
                                                       (&&) (at_pc s1 a PF4)
                                                         (is_co
                                                           (s1.kindm
                                                             (s1.bownerm
                                                               (s1.awm a)))))
                                                       (one a) (fun s1 _ ->
                                                       match bind_obj x.opk
                                                               (s1.awm a) o with
                                                       | Some m ->
                                                         Some (set_opk x m)
                                                       | None -> None)
                                                   | _ -> None)
                                                | XO _ -> None
                                                | XH ->
                                                  act_on s a (fun s1 ->
                                                    at_pc s1 a PW1) (one a)
                                                    (fun s1 _ ->
                                                    match bind_obj x.ojw
                                                            (c1 s1) o with
                                                    | Some m ->
                                                      Some (set_ojw x m)
                                                    | None -> None))
                                             | XH ->
                                               if phis x a (S O)
                                               then act_on s a (fun s1 ->
                                                      (&&)
                                                        ((&&)
                                                          (at_pc s1 a PWW)
                                                          (zb v))
                                                        (Z.eqb
                                                          (x.opk (s1.jbm a))
                                                          o)) (one a)
                                                      (fun _ _ -> Some
                                                      (set_ph x a O))
                                               else if phis x a (S (S (S (S
                                                         (S (S (S (S (S (S (S
                                                         (S O))))))))))))
                                                    then act_on s a (fun _ ->
                                                           zb v) none_acts
                                                           (fun _ _ -> Some
                                                           (set_ph x a O))
                                                    else None)
                                          | XO p6 ->
                                            (match p6 with
                                             | XI p7 ->
                                               (match p7 with
                                                | XI _ -> None
                                                | XO p8 ->
                                                  (match p8 with
                                                   | XH ->
                                                     (match x.nest a with
                                                      | O ->
                                                        act_on s a (fun s1 ->
                                                          (&&)
                                                            (at_pc s1 a PEn)
                                                            (Z.eqb v
                                                              (cword s1 a)))
                                                          (one a) (keep x)
                                                      | S n ->
                                                        if Z.eqb v
                                                             (cwn s (S n) a)
                                                        then Some { acts =
                                                               []; nxt =
                                                               (set_nest x a
                                                                 n) }
                                                        else None)
                                                   | _ -> None)
                                                | XH ->
                                                  act_on s a (fun s1 ->
                                                    (&&) (at_pc s1 a PF3)
                                                      (eqb
                                                        (is_some
                                                          (s1.jwakem a))
                                                        (zb v))) (one a)
                                                    (fun _ _ ->
                                                    match bind_obj x.ojw a o with
                                                    | Some m ->
                                                      Some (set_ojw x m)
                                                    | None -> None))
                                             | XO _ -> None
                                             | XH ->
                                               (match x.pmap (Z.to_nat o) with
                                                | O -> None
                                                | S c ->
                                                  act_on s a (fun s1 ->
                                                    (&&)
                                                      ((&&)
                                                        (at_pc s1 a PBody)
                                                        (Nat.eqb (s1.gotm c)
                                                          (S O)))
                                                      (Z.eqb
                                                        (Z.of_nat
                                                          (s1.cvalm c)) v))
                                                    none_acts (keep x)))
                                          | XH ->
                                            act_on s a (fun s1 ->
                                              at_pc s1 a PBody) (fun _ ->
                                              (Close a) :: []) (keep x))
                                       | XH -> None)
                                    | XO p4 ->
                                      (match p4 with
                                       | XI p5 ->
                                         (match p5 with
                                          | XI p6 ->
                                            (match p6 with
                                             | XI p7 ->
                                               (match p7 with
                                                | XH ->
                                                  act_on s a (fun s1 ->
                                                    (&&) (at_pc s1 a PF1)
                                                      (negb
                                                        (unwinding
                                                          (s1.unwm a))))
                                                    none_acts (keep x)
                                                | _ -> None)
                                             | XO p7 ->
                                               (match p7 with
                                                | XH ->
                                                  act_on s a (fun s1 ->
                                                    (&&)
                                                      ((&&) (at_pc s1 a PW2)
                                                        (eqb
                                                          (s1.jstm (c1 s1))
                                                          (zb v)))
                                                      (Z.eqb (x.ojs (c1 s1))
                                                        o)) (one a) (keep x)
                                                | _ -> None)
                                             | XH ->
                                               act_on s a (fun s1 ->
                                                 (&&) (at_pc s1 a PF4)
                                                   (negb
                                                     (is_co
                                                       (s1.kindm
                                                         (s1.bownerm
                                                           (s1.awm a))))))
                                                 (one a) (fun s1 _ ->
                                                 match bind_obj x.opk
                                                         (s1.awm a) o with
                                                 | Some m ->
                                                   Some (set_opk x m)
                                                 | None -> None))
                                          | XO p6 ->
                                            (match p6 with
                                             | XI p7 ->
                                               (match p7 with
                                                | XI _ -> None
                                                | XO p8 ->
                                                  (match p8 with
                                                   | XH ->
                                                     if negb
                                                          (Nat.eqb (x.nest a)
                                                            O)
                                                     then if Z.eqb v
                                                               (cwn s
                                                                 (x.nest a) a)
                                                          then skip x
                                                          else None
                                                     else if at_pc s a PCk
                                                          then act_on s a
                                                                 (fun s1 ->
                                                                 Z.eqb v
                                                                   (cword s1
                                                                    a))
                                                                 (one a)
                                                                 (keep x)
                                                          else if phis x a (S
                                                                    (S (S (S
                                                                    (S (S (S
                                                                    (S
                                                                    O))))))))
                                                               then act_on s
                                                                    a
                                                                    (fun s1 ->
                                                                    (&&)
                                                                    (at_pc s1
                                                                    a PWW)
                                                                    (Z.eqb v
                                                                    (cword s1
                                                                    a)))
                                                                    (one a)
                                                                    (fun s1 s3 ->
                                                                    Some
                                                                    (set_ph x
                                                                    a
                                                                    (if 
                                                                    raised s1
                                                                    s3 a
                                                                    then O
                                                                    else 
                                                                    S (S (S
                                                                    (S (S (S
                                                                    (S (S (S
                                                                    O)))))))))))
                                                               else if 
                                                                    phis x a
                                                                    (S (S (S
                                                                    (S (S (S
                                                                    O))))))
                                                                    then 
                                                                    act_on s
                                                                    a
                                                                    (fun s1 ->
                                                                    (&&)
                                                                    (Z.eqb v
                                                                    (cword s1
                                                                    a))
                                                                    (negb
                                                                    ((&&)
                                                                    (cancel_due
                                                                    s1 a)
                                                                    (negb
                                                                    (unwinding
                                                                    (s1.unwm
                                                                    a))))))
                                                                    none_acts
                                                                    (fun _ _ ->
                                                                    Some
                                                                    (set_ph x
                                                                    a (S (S
                                                                    (S (S (S
                                                                    (S (S (S
                                                                    (S
                                                                    O)))))))))))
                                                                    else 
                                                                    if 
                                                                    phis x a
                                                                    (S (S (S
                                                                    (S (S (S
                                                                    (S
                                                                    O)))))))
                                                                    then 
                                                                    act_on s
                                                                    a
                                                                    (fun s1 ->
                                                                    Z.eqb v
                                                                    (cword s1
                                                                    a))
                                                                    none_acts
                                                                    (fun _ _ ->
                                                                    Some
                                                                    (set_ph x
                                                                    a (S (S
                                                                    (S (S (S
                                                                    (S (S (S
                                                                    (S
                                                                    O)))))))))))
                                                                    else 
                                                                    if 
                                                                    phis x a
                                                                    (S (S (S
                                                                    (S (S (S
                                                                    (S (S (S
                                                                    (S (S (S
                                                                    (S
                                                                    O)))))))))))))
                                                                    then 
                                                                    act_on s
                                                                    a
                                                                    (fun s1 ->
                                                                    Z.eqb v
                                                                    (cword s1
                                                                    a))
                                                                    none_acts
                                                                    (fun _ _ ->
                                                                    Some
                                                                    (set_ph x
                                                                    a O))
                                                                    else 
                                                                    if 
                                                                    (&&)
                                                                    (phis x a
                                                                    O)
                                                                    (at_pc s
                                                                    a PBody)
                                                                    then 
                                                                    act_on s
                                                                    a
                                                                    (fun s1 ->
                                                                    Z.eqb v
                                                                    (cword s1
                                                                    a))
                                                                    (fun s1 ->
                                                                    if 
                                                                    (&&)
                                                                    (Z.eqb v
                                                                    (Zpos XH))
                                                                    (negb
                                                                    (unwinding
                                                                    (s1.unwm
                                                                    a)))
                                                                    then 
                                                                    (CPoint
                                                                    a) :: []
                                                                    else [])
                                                                    (keep x)
                                                                    else None
                                                   | _ -> None)
                                                | XH ->
                                                  act_on s a (fun s1 ->
                                                    (&&) (at_pc s1 a PT1)
                                                      (eqb (s1.ipktm (c1 s1))
                                                        (zb v))) (one a)
                                                    (keep x))
                                             | XO p7 ->
                                               (match p7 with
                                                | XI p8 ->
                                                  (match p8 with
                                                   | XH ->
                                                     if phis x a O
                                                     then act_on s a
                                                            (fun s1 ->
                                                            (&&)
                                                              ((&&)
                                                                (at_pc s1 a
                                                                  PPark)
                                                                (is_co
                                                                  (s1.kindm a)))
                                                              (eqb
                                                                (s1.tokm
                                                                  (s1.jbm a))
                                                                (zb v)))
                                                            (fun _ ->
                                                            if zb v
                                                            then (Step
                                                                   a) :: []
                                                            else [])
                                                            (fun s1 _ ->
                                                            match bind_obj
                                                                    x.opk
                                                                    (s1.jbm a)
                                                                    o with
                                                            | Some m ->
                                                              Some
                                                                (set_ph
                                                                  (set_opk x
                                                                    m) a
                                                                  (if zb v
                                                                   then 
                                                                    S (S (S
                                                                    O))
                                                                   else 
                                                                    S (S (S
                                                                    (S (S
                                                                    O))))))
                                                            | None -> None)
                                                     else if phis x a (S (S
                                                               (S (S (S (S (S
                                                               (S (S
                                                               O)))))))))
                                                          then Some { acts =
                                                                 []; nxt =
                                                                 (set_ph x a
                                                                   (if zb v
                                                                    then 
                                                                    S (S (S
                                                                    (S (S (S
                                                                    (S (S (S
                                                                    (S
                                                                    O)))))))))
                                                                    else 
                                                                    S (S (S
                                                                    (S (S (S
                                                                    (S (S (S
                                                                    (S (S
                                                                    O)))))))))))) }
                                                          else None
                                                   | _ -> None)
                                                | _ -> None)
                                             | XH ->
                                               act_on s a (fun s1 ->
                                                 at_pc s1 a PBody) (fun _ ->
                                                 (Finish (a,
                                                 (Z.to_nat v))) :: [])
                                                 (keep x))
                                          | XH ->
                                            act_on s a (fun s1 ->
                                              at_pc s1 a PDrop) (one a)
                                              (keep x))
                                       | XO p5 ->
                                         (match p5 with
                                          | XI p6 ->
                                            (match p6 with
                                             | XI p7 ->
                                               (match p7 with
                                                | XH ->
                                                  act_on s a (fun s1 ->
                                                    (&&) (at_pc s1 a PF1)
                                                      (is_upanic (s1.unwm a)))
                                                    none_acts (keep x)
                                                | _ -> None)
                                             | XO p7 ->
                                               (match p7 with
                                                | XI p8 ->
                                                  (match p8 with
                                                   | XH ->
                                                     if phis x a (S (S (S (S
                                                          (S O)))))
                                                     then act_on s a
                                                            (fun s1 ->
                                                            (&&)
                                                              ((&&)
                                                                (at_pc s1 a
                                                                  PPark)
                                                                (eqb
                                                                  (s1.tokm
                                                                    (s1.jbm a))
                                                                  (zb v)))
                                                              (Z.eqb
                                                                (x.opk
                                                                  (s1.jbm a))
                                                                o)) (fun _ ->
                                                            if zb v
                                                            then (Step
                                                                   a) :: []
                                                            else [])
                                                            (fun _ _ -> Some
                                                            (set_ph x a
                                                              (if zb v
                                                               then O
                                                               else S (S O))))
                                                     else if phis x a (S (S
                                                               (S (S (S (S (S
                                                               (S (S (S (S
                                                               O)))))))))))
                                                          then Some { acts =
                                                                 []; nxt =
                                                                 (set_ph x a
                                                                   O) }
                                                          else None
                                                   | _ -> None)
                                                | XO _ -> None
                                                | XH ->
                                                  act_on s a (fun s1 ->
                                                    (&&) (at_pc s1 a PW0)
                                                      (eqb (s1.jstm (c1 s1))
                                                        (zb v))) (one a)
                                                    (fun s1 _ ->
                                                    match bind_obj x.ojs
                                                            (c1 s1) o with
                                                    | Some m ->
                                                      Some (set_ojs x m)
                                                    | None -> None))
                                             | XH ->
                                               act_on s a (fun s1 ->
                                                 (&&)
                                                   ((&&) (at_pc s1 a PPark)
                                                     (negb
                                                       (is_co (s1.kindm a))))
                                                   (phis x a O)) (one a)
                                                 (fun s1 s3 ->
                                                 match bind_obj x.opk
                                                         (s1.jbm a) o with
                                                 | Some m ->
                                                   Some
                                                     (set_ph (set_opk x m) a
                                                       (if at_pc s3 a PWW
                                                        then S O
                                                        else S (S (S (S (S (S
                                                               (S (S (S (S (S
                                                               (S O)))))))))))))
                                                 | None -> None))
                                          | XO p6 ->
                                            (match p6 with
                                             | XI p7 ->
                                               (match p7 with
                                                | XI _ -> None
                                                | XO p8 ->
                                                  (match p8 with
                                                   | XH ->
                                                     if (&&)
                                                          (Nat.eqb (x.nest a)
                                                            O)
                                                          ((||)
                                                            (at_pc s a PJ0)
                                                            (at_pc s a PDrop))
                                                     then act_on s a
                                                            (fun s1 ->
                                                            (&&)
                                                              ((&&)
                                                                (at_pc s1 a
                                                                  PJ0)
                                                                (is_co
                                                                  (s1.kindm a)))
                                                              (Z.eqb v
                                                                (cword s1 a)))
                                                            (one a) (keep x)
                                                     else if Z.eqb v
                                                               (cwn s
                                                                 (x.nest a) a)
                                                          then Some { acts =
                                                                 []; nxt =
                                                                 (set_nest x
                                                                   a (S
                                                                   (x.nest a))) }
                                                          else None
                                                   | _ -> None)
                                                | XH ->
                                                  act_on s a (fun s1 ->
                                                    (&&)
                                                      ((||) (at_pc s1 a PF1)
                                                        (at_pc s1 a PF2))
                                                      (negb (zb v)))
                                                    (fun s1 ->
                                                    if at_pc s1 a PF1
                                                    then (Step a) :: ((Step
                                                           a) :: [])
                                                    else (Step a) :: [])
                                                    (fun _ _ ->
                                                    match bind_obj x.ojs a o with
                                                    | Some m ->
                                                      Some (set_ojs x m)
                                                    | None -> None))
                                             | XO _ -> None
                                             | XH ->
                                               (match x.pmap (Z.to_nat o) with
                                                | O -> None
                                                | S c ->
                                                  act_on s a (fun s1 ->
                                                    at_pc s1 a PBody)
                                                    (fun _ -> (Join (a,
                                                    c)) :: []) (keep x)))
                                          | XH ->
                                            act_on s a (fun s1 ->
                                              at_pc s1 a PBody) (fun _ ->
                                              (Open a) :: []) (keep x))
                                       | XH ->
                                         let n = s.nexta in
                                         act_on s a (fun s1 ->
                                           at_pc s1 a PBody) (fun _ -> (Spawn
                                           (a, (Z.to_nat v))) :: [])
                                           (fun _ _ -> Some
                                           (set_pmap x
                                             (upd x.pmap (Z.to_nat o) (S n)))))
                                    | XH -> None)
                                 | _ -> None)
                              | None -> skip x))
                        | _ ->
                          (match task x ta with
                           | Some a ->
                             let c1 = fun s1 -> s1.jcm a in
                             (match code with
                              | Zpos p2 ->
                                (match p2 with
                                 | XI p3 ->
                                   (match p3 with
                                    | XI p4 ->
                                      (match p4 with
                                       | XI p5 ->
                                         (match p5 with
                                          | XI p6 ->
                                            (match p6 with
                                             | XH ->
                                               act_on s a (fun s1 ->
                                                 (&&) (at_pc s1 a PRet) (zb v))
                                                 (one a) (keep x)
                                             | _ -> None)
                                          | XO p6 ->
                                            (match p6 with
                                             | XH ->
                                               act_on s a (fun s1 ->
                                                 (&&)
                                                   ((&&) (at_pc s1 a PW3)
                                                     (eqb
                                                       (is_some
                                                         (s1.jwakem (c1 s1)))
                                                       (zb v)))
                                                   (Z.eqb (x.ojw (c1 s1)) o))
                                                 (one a) (keep x)
                                             | _ -> None)
                                          | XH -> None)
                                       | XO p5 ->
                                         (match p5 with
                                          | XI p6 ->
                                            (match p6 with
                                             | XI _ -> None
                                             | XO p7 ->
                                               (match p7 with
                                                | XH ->
                                                  if negb
                                                       (Nat.eqb (x.nest a) O)
                                                  then if Z.eqb v
                                                            (cwn s (x.nest a)
                                                              a)
                                                       then skip x
                                                       else None
                                                  else if phis x a (S (S O))
                                                       then act_on s a
                                                              (fun s1 ->
                                                              (&&)
                                                                (at_pc s1 a
                                                                  PPark)
                                                                (Z.eqb v
                                                                  (cword s1 a)))
                                                              (one a)
                                                              (fun s1 s3 ->
                                                              Some
                                                              (set_ph x a
                                                                (if s1.tokm
                                                                    (s1.jbm a)
                                                                 then 
                                                                   S (S (S (S
                                                                    (S (S
                                                                    O)))))
                                                                 else 
                                                                   if 
                                                                    at_pc s3
                                                                    a PWW
                                                                   then 
                                                                    S (S (S
                                                                    (S (S (S
                                                                    (S (S
                                                                    O)))))))
                                                                   else 
                                                                    if 
                                                                    raised s1
                                                                    s3 a
                                                                    then 
                                                                    S (S (S
                                                                    (S (S (S
                                                                    (S (S (S
                                                                    (S (S (S
                                                                    (S
                                                                    O))))))))))))
                                                                    else 
                                                                    S (S (S
                                                                    (S (S (S
                                                                    (S O)))))))))
                                                       else act_on s a
                                                              (fun s1 ->
                                                              Z.eqb v
                                                                (cword s1 a))
                                                              none_acts
                                                              (keep x)
                                                | _ -> None)
                                             | XH ->
                                               act_on s a (fun s1 ->
                                                 (&&) (at_pc s1 a PT2)
                                                   (eqb
                                                     (is_some
                                                       (s1.panm (c1 s1)))
                                                     (zb v))) (one a) 
                                                 (keep x))
                                          | XO p6 ->
                                            (match p6 with
                                             | XI p7 ->
                                               (match p7 with
                                                | XH ->
                                                  if (||)
                                                       (phis x a (S (S (S
                                                         O))))
                                                       (phis x a (S (S (S (S
                                                         (S (S (S (S (S (S
                                                         O)))))))))))
                                                  then Some { acts = [];
                                                         nxt =
                                                         (set_ph x a O) }
                                                  else None
                                                | _ -> None)
                                             | _ -> None)
                                          | XH -> None)
                                       | XH ->
                                         act_on s a (fun s1 ->
                                           at_pc s1 a PBody) (fun _ -> (Panic
                                           (a, (Z.to_nat o))) :: []) 
                                           (keep x))
                                    | XO p4 ->
                                      (match p4 with
                                       | XI p5 ->
                                         (match p5 with
                                          | XI _ -> None
                                          | XO p6 ->
                                            (match p6 with
                                             | XI p7 ->
                                               (match p7 with
                                                | XH ->
                                                  act_on s a (fun s1 ->
                                                    (&&) (at_pc s1 a PF4)
                                                      (is_co
                                                        (s1.kindm
                                                          (s1.bownerm
                                                            (s1.awm a)))))
                                                    (one a) (fun s1 _ ->
                                                    match bind_obj x.opk
                                                            (s1.awm a) o with
                                                    | Some m ->
                                                      Some (set_opk x m)
                                                    | None -> None)
                                                | _ -> None)
                                             | XO _ -> None
                                             | XH ->
                                               act_on s a (fun s1 ->
                                                 at_pc s1 a PW1) (one a)
                                                 (fun s1 _ ->
                                                 match bind_obj x.ojw 
                                                         (c1 s1) o with
                                                 | Some m ->
                                                   Some (set_ojw x m)
                                                 | None -> None))
                                          | XH ->
                                            if phis x a (S O)
                                            then act_on s a (fun s1 ->
                                                   (&&)
                                                     ((&&) (at_pc s1 a PWW)
                                                       (zb v))
                                                     (Z.eqb
                                                       (x.opk (s1.jbm a)) o))
                                                   (one a) (fun _ _ -> Some
                                                   (set_ph x a O))
                                            else if phis x a (S (S (S (S (S
                                                      (S (S (S (S (S (S (S
                                                      O))))))))))))
                                                 then act_on s a (fun _ ->
                                                        zb v) none_acts
                                                        (fun _ _ -> Some
                                                        (set_ph x a O))
                                                 else None)
                                       | XO p5 ->
                                         (match p5 with
                                          | XI p6 ->
                                            (match p6 with
                                             | XI _ -> None
                                             | XO p7 ->
                                               (match p7 with
                                                | XH ->
                                                  (match x.nest a with
                                                   | O ->
                                                     act_on s a (fun s1 ->
                                                       (&&) (at_pc s1 a PEn)
                                                         (Z.eqb v
                                                           (cword s1 a)))
                                                       (one a) (keep x)
                                                   | S n ->
                                                     if Z.eqb v
                                                          (cwn s (S n) a)
                                                     then Some { acts = [];
                                                            nxt =
                                                            (set_nest x a n) }
                                                     else None)
                                                | _ -> None)
                                             | XH ->
                                               act_on s a (fun s1 ->
                                                 (&&) (at_pc s1 a PF3)
                                                   (eqb
                                                     (is_some (s1.jwakem a))
                                                     (zb v))) (one a)
                                                 (fun _ _ ->
                                                 match bind_obj x.ojw a o with
                                                 | Some m ->
                                                   Some (set_ojw x m)
                                                 | None -> None))
                                          | XO _ -> None
                                          | XH ->
                                            (match x.pmap (Z.to_nat o) with
                                             | O -> None
                                             | S c ->
                                               act_on s a (fun s1 ->
                                                 (&&)
                                                   ((&&) (at_pc s1 a PBody)
                                                     (Nat.eqb (s1.gotm c) (S
                                                       O)))
                                                   (Z.eqb
                                                     (Z.of_nat (s1.cvalm c))
                                                     v)) none_acts (keep x)))
                                       | XH ->
                                         act_on s a (fun s1 ->
                                           at_pc s1 a PBody) (fun _ -> (Close
                                           a) :: []) (keep x))
                                    | XH -> None)
                                 | XO p3 ->
                                   (match p3 with
                                    | XI p4 ->
                                      (match p4 with
                                       | XI p5 ->
                                         (match p5 with
                                          | XI p6 ->
                                            (match p6 with
                                             | XH ->
                                               act_on s a (fun s1 ->
                                                 (&&) (at_pc s1 a PF1)
                                                   (negb
                                                     (unwinding (s1.unwm a))))
                                                 none_acts (keep x)
                                             | _ -> None)
                                          | XO p6 ->
                                            (match p6 with
                                             | XH ->
                                               act_on s a (fun s1 ->
                                                 (&&)
                                                   ((&&) (at_pc s1 a PW2)
                                                     (eqb (s1.jstm (c1 s1))
                                                       (zb v)))
                                                   (Z.eqb (x.ojs (c1 s1)) o))
                                                 (one a) (keep x)
                                             | _ -> None)
                                          | XH ->
                                            act_on s a (fun s1 ->
                                              (&&) (at_pc s1 a PF4)
                                                (negb
                                                  (is_co
                                                    (s1.kindm
                                                      (s1.bownerm (s1.awm a))))))
                                              (one a) (fun s1 _ ->
                                              match bind_obj x.opk (s1.awm a)
                                                      o with
                                              | Some m -> Some (set_opk x m)
                                              | None -> None))
                                       | XO p5 ->
                                         (match p5 with
                                          | XI p6 ->
                                            (match p6 with
                                             | XI _ -> None
                                             | XO p7 ->
                                               (match p7 with
                                                | XH ->
                                                  if negb
                                                       (Nat.eqb (x.nest a) O)
                                                  then if Z.eqb v
                                                            (cwn s (x.nest a)
                                                              a)
                                                       then skip x
                                                       else None
                                                  else if at_pc s a PCk
                                                       then act_on s a
                                                              (fun s1 ->
                                                              Z.eqb v
                                                                (cword s1 a))
                                                              (one a) 
                                                              (keep x)
                                                       else if phis x a (S (S
                                                                 (S (S (S (S
                                                                 (S (S
                                                                 O))))))))
                                                            then act_on s a
                                                                   (fun s1 ->
                                                                   (&&)
                                                                    (at_pc s1
                                                                    a PWW)
                                                                    (Z.eqb v
                                                                    (cword s1
                                                                    a)))
                                                                   (one a)
                                                                   (fun s1 s3 ->
                                                                   Some
                                                                   (set_ph x
                                                                    a
                                                                    (if 
                                                                    raised s1
                                                                    s3 a
                                                                    then O
                                                                    else 
                                                                    S (S (S
                                                                    (S (S (S
                                                                    (S (S (S
                                                                    O)))))))))))
                                                            else if phis x a
                                                                    (S (S (S
                                                                    (S (S (S
                                                                    O))))))
                                                                 then 
                                                                   act_on s a
                                                                    (fun s1 ->
                                                                    (&&)
                                                                    (Z.eqb v
                                                                    (cword s1
                                                                    a))
                                                                    (negb
                                                                    ((&&)
                                                                    (cancel_due
                                                                    s1 a)
                                                                    (negb
                                                                    (unwinding
                                                                    (s1.unwm
                                                                    a))))))
                                                                    none_acts
                                                                    (fun _ _ ->
                                                                    Some
                                                                    (set_ph x
                                                                    a (S (S
                                                                    (S (S (S
                                                                    (S (S (S
                                                                    (S
                                                                    O)))))))))))
                                                                 else 
                                                                   if 
                                                                    phis x a
                                                                    (S (S (S
                                                                    (S (S (S
                                                                    (S
                                                                    O)))))))
                                                                   then 
                                                                    act_on s
                                                                    a
                                                                    (fun s1 ->
                                                                    Z.eqb v
                                                                    (cword s1
                                                                    a))
                                                                    none_acts
                                                                    (fun _ _ ->
                                                                    Some
                                                                    (set_ph x
                                                                    a (S (S
                                                                    (S (S (S
                                                                    (S (S (S
                                                                    (S
                                                                    O)))))))))))
                                                                   else 
                                                                    if 
                                                                    phis x a
                                                                    (S (S (S
                                                                    (S (S (S
                                                                    (S (S (S
                                                                    (S (S (S
                                                                    (S
                                                                    O)))))))))))))
                                                                    then 
                                                                    act_on s
                                                                    a
                                                                    (fun s1 ->
                                                                    Z.eqb v
                                                                    (cword s1
                                                                    a))
                                                                    none_acts
                                                                    (fun _ _ ->
                                                                    Some
                                                                    (set_ph x
                                                                    a O))
                                                                    else 
                                                                    if 
                                                                    (&&)
                                                                    (phis x a
                                                                    O)
                                                                    (at_pc s
                                                                    a PBody)
                                                                    then 
                                                                    act_on s
                                                                    a
                                                                    (fun s1 ->
                                                                    Z.eqb v
                                                                    (cword s1
                                                                    a))
                                                                    (fun s1 ->
                                                                    if 
                                                                    (&&)
                                                                    (Z.eqb v
                                                                    (Zpos XH))
                                                                    (negb
                                                                    (unwinding
                                                                    (s1.unwm
                                                                    a)))
                                                                    then 
                                                                    (CPoint
                                                                    a) :: []
                                                                    else [])
                                                                    (keep x)
                                                                    else None
                                                | _ -> None)
                                             | XH ->
                                               act_on s a (fun s1 ->
                                                 (&&) (at_pc s1 a PT1)
                                                   (eqb (s1.ipktm (c1 s1))
                                                     (zb v))) (one a) 
                                                 (keep x))
                                          | XO p6 ->
                                            (match p6 with
                                             | XI p7 ->
                                               (match p7 with
                                                | XH ->
                                                  if phis x a O
                                                  then act_on s a (fun s1 ->
                                                         (&&)
                                                           ((&&)
                                                             (at_pc s1 a
                                                               PPark)
                                                             (is_co
                                                               (s1.kindm a)))
                                                           (eqb
                                                             (s1.tokm
                                                               (s1.jbm a))
                                                             (zb v)))
                                                         (fun _ ->
                                                         if zb v
                                                         then (Step a) :: []
                                                         else [])
                                                         (fun s1 _ ->
                                                         match bind_obj x.opk
                                                                 (s1.jbm a) o with
                                                         | Some m ->
                                                           Some
                                                             (set_ph
                                                               (set_opk x m)
                                                               a
                                                               (if zb v
                                                                then 
                                                                  S (S (S O))
                                                                else 
                                                                  S (S (S (S
                                                                    (S O))))))
                                                         | None -> None)
                                                  else if phis x a (S (S (S
                                                            (S (S (S (S (S (S
                                                            O)))))))))
                                                       then Some { acts = [];
                                                              nxt =
                                                              (set_ph x a
                                                                (if zb v
                                                                 then 
                                                                   S (S (S (S
                                                                    (S (S (S
                                                                    (S (S (S
                                                                    O)))))))))
                                                                 else 
                                                                   S (S (S (S
                                                                    (S (S (S
                                                                    (S (S (S
                                                                    (S
                                                                    O)))))))))))) }
                                                       else None
                                                | _ -> None)
                                             | _ -> None)
                                          | XH ->
                                            act_on s a (fun s1 ->
                                              at_pc s1 a PBody) (fun _ ->
                                              (Finish (a,
                                              (Z.to_nat v))) :: []) (keep x))
                                       | XH ->
                                         act_on s a (fun s1 ->
                                           at_pc s1 a PDrop) (one a) 
                                           (keep x))
                                    | XO p4 ->
                                      (match p4 with
                                       | XI p5 ->
                                         (match p5 with
                                          | XI p6 ->
                                            (match p6 with
                                             | XH ->
                                               act_on s a (fun s1 ->
                                                 (&&) (at_pc s1 a PF1)
                                                   (is_upanic (s1.unwm a)))
                                                 none_acts (keep x)
                                             | _ -> None)
                                          | XO p6 ->
                                            (match p6 with
                                             | XI p7 ->
                                               (match p7 with
                                                | XH ->
                                                  if phis x a (S (S (S (S (S
                                                       O)))))
                                                  then act_on s a (fun s1 ->
                                                         (&&)
                                                           ((&&)
                                                             (at_pc s1 a
                                                               PPark)
                                                             (eqb
                                                               (s1.tokm
                                                                 (s1.jbm a))
                                                               (zb v)))
                                                           (Z.eqb
                                                             (x.opk
                                                               (s1.jbm a)) o))
                                                         (fun _ ->
                                                         if zb v
                                                         then (Step a) :: []
                                                         else []) (fun _ _ ->
                                                         Some
                                                         (set_ph x a
                                                           (if zb v
                                                            then O
                                                            else S (S O))))
                                                  else if phis x a (S (S (S
                                                            (S (S (S (S (S (S
                                                            (S (S O)))))))))))
                                                       then Some { acts = [];
                                                              nxt =
                                                              (set_ph x a O) }
                                                       else None
                                                | _ -> None)
                                             | XO _ -> None
                                             | XH ->
                                               act_on s a (fun s1 ->
                                                 (&&) (at_pc s1 a PW0)
                                                   (eqb (s1.jstm (c1 s1))
                                                     (zb v))) (one a)
                                                 (fun s1 _ ->
                                                 match bind_obj x.ojs 
                                                         (c1 s1) o with
                                                 | Some m ->
                                                   Some (set_ojs x m)
                                                 | None -> None))
                                          | XH ->
                                            act_on s a (fun s1 ->
                                              (&&)
                                                ((&&) (at_pc s1 a PPark)
                                                  (negb (is_co (s1.kindm a))))
                                                (phis x a O)) (one a)
                                              (fun s1 s3 ->
                                              match bind_obj x.opk (s1.jbm a)
                                                      o with
                                              | Some m ->
                                                Some
                                                  (set_ph (set_opk x m) a
                                                    (if at_pc s3 a PWW
                                                     then S O
                                                     else S (S (S (S (S (S (S
                                                            (S (S (S (S (S
                                                            O)))))))))))))
                                              | None -> None))
                                       | XO p5 ->
                                         (match p5 with
                                          | XI p6 ->
                                            (match p6 with
                                             | XI _ -> None
                                             | XO p7 ->
                                               (match p7 with
                                                | XH ->
                                                  if (&&)
                                                       (Nat.eqb (x.nest a) O)
                                                       ((||) (at_pc s a PJ0)
                                                         (at_pc s a PDrop))
                                                  then act_on s a (fun s1 ->
                                                         (&&)
                                                           ((&&)
                                                             (at_pc s1 a PJ0)
                                                             (is_co
                                                               (s1.kindm a)))
                                                           (Z.eqb v
                                                             (cword s1 a)))
                                                         (one a) (keep x)
                                                  else if Z.eqb v
                                                            (cwn s (x.nest a)
                                                              a)
                                                       then Some { acts = [];
                                                              nxt =
                                                              (set_nest x a
                                                                (S
                                                                (x.nest a))) }
                                                       else None
                                                | _ -> None)
                                             | XH ->
                                               act_on s a (fun s1 ->
                                                 (&&)
                                                   ((||) (at_pc s1 a PF1)
                                                     (at_pc s1 a PF2))
                                                   (negb (zb v))) (fun s1 ->
                                                 if at_pc s1 a PF1
                                                 then (Step a) :: ((Step
                                                        a) :: [])
                                                 else (Step a) :: [])
                                                 (fun _ _ ->
                                                 match bind_obj x.ojs a o with
                                                 | Some m ->
                                                   Some (set_ojs x m)
                                                 | None -> None))
                                          | XO _ -> None
                                          | XH ->
                                            (match x.pmap (Z.to_nat o) with
                                             | O -> None
                                             | S c ->
                                               act_on s a (fun s1 ->
                                                 at_pc s1 a PBody) (fun _ ->
                                                 (Join (a, c)) :: []) 
                                                 (keep x)))
                                       | XH ->
                                         act_on s a (fun s1 ->
                                           at_pc s1 a PBody) (fun _ -> (Open
                                           a) :: []) (keep x))
                                    | XH ->
                                      let n = s.nexta in
                                      act_on s a (fun s1 -> at_pc s1 a PBody)
                                        (fun _ -> (Spawn (a,
                                        (Z.to_nat v))) :: []) (fun _ _ ->
                                        Some
                                        (set_pmap x
                                          (upd x.pmap (Z.to_nat o) (S n)))))
                                 | XH -> None)
                              | _ -> None)
                           | None -> skip x))
                     | XH ->
                       (match task x ta with
                        | Some _ -> None
                        | None ->
                          (match x.pmap (Z.to_nat o) with
                           | O -> None
                           | S n ->
                             if at_pc s n PBody
                             then Some { acts = []; nxt =
                                    (set_cmap
                                      (set_amap x (upd x.amap ta (S n))) ((v,
                                      n) :: x.cmap)) }
                             else None)))
                  | XO p0 ->
                    (match p0 with
                     | XI p1 ->
                       (match p1 with
                        | XI p2 ->
                          (match p2 with
                           | XI p3 ->
                             (match p3 with
                              | XO p4 ->
                                (match p4 with
                                 | XH ->
                                   (match tgt x ta with
                                    | Some t ->
                                      if zb v
                                      then Some { acts = ((Cancel t) :: []);
                                             nxt = x }
                                      else skip x
                                    | None -> None)
                                 | _ ->
                                   (match task x ta with
                                    | Some a ->
                                      let c1 = fun s1 -> s1.jcm a in
                                      (match code with
                                       | Zpos p5 ->
                                         (match p5 with
                                          | XI p6 ->
                                            (match p6 with
                                             | XI p7 ->
                                               (match p7 with
                                                | XI p8 ->
                                                  (match p8 with
                                                   | XI p9 ->
                                                     (match p9 with
                                                      | XH ->
                                                        act_on s a (fun s1 ->
                                                          (&&)
                                                            (at_pc s1 a PRet)
                                                            (zb v)) (one a)
                                                          (keep x)
                                                      | _ -> None)
                                                   | XO p9 ->
                                                     (match p9 with
                                                      | XH ->
                                                        act_on s a (fun s1 ->
                                                          (&&)
                                                            ((&&)
                                                              (at_pc s1 a PW3)
                                                              (eqb
                                                                (is_some
                                                                  (s1.jwakem
                                                                    (c1 s1)))
                                                                (zb v)))
                                                            (Z.eqb
                                                              (x.ojw (c1 s1))
                                                              o)) (one a)
                                                          (keep x)
                                                      | _ -> None)
                                                   | XH -> None)
                                                | XO p8 ->
                                                  (match p8 with
                                                   | XI p9 ->
                                                     (match p9 with
                                                      | XI _ -> None
                                                      | XO p10 ->
                                                        (match p10 with
                                                         | XH ->
                                                           if negb
                                                                (Nat.eqb
                                                                  (x.nest a)
                                                                  O)
                                                           then if Z.eqb v
                                                                    (cwn s
                                                                    (x.nest a)
                                                                    a)
                                                                then skip x
                                                                else None
                                                           else if phis x a
                                                                    (S (S O))
                                                                then 
                                                                  act_on s a
                                                                    (fun s1 ->
                                                                    (&&)
                                                                    (at_pc s1
                                                                    a PPark)
                                                                    (Z.eqb v
                                                                    (cword s1
                                                                    a)))
                                                                    (one a)
                                                                    (fun s1 s3 ->
                                                                    Some
                                                                    (set_ph x
                                                                    a
                                                                    (if 
                                                                    s1.tokm
                                                                    (s1.jbm a)
                                                                    then 
                                                                    S (S (S
                                                                    (S (S (S
                                                                    O)))))
                                                                    else 
                                                                    if 
                                                                    at_pc s3
                                                                    a PWW
                                                                    then 
                                                                    S (S (S
                                                                    (S (S (S
                                                                    (S (S
                                                                    O)))))))
                                                                    else 
                                                                    if 
                                                                    raised s1
                                                                    s3 a
                                                                    then 
                                                                    S (S (S
                                                                    (S (S (S
                                                                    (S (S (S
                                                                    (S (S (S
                                                                    (S
                                                                    O))))))))))))
                                                                    else 
                                                                    S (S (S
                                                                    (S (S (S
                                                                    (S O)))))))))
                                                                else 
                                                                  act_on s a
                                                                    (fun s1 ->
                                                                    Z.eqb v
                                                                    (cword s1
                                                                    a))
                                                                    none_acts
                                                                    (keep x)
                                                         | _ -> None)
                                                      | XH ->
                                                        act_on s a (fun s1 ->
                                                          (&&)
                                                            (at_pc s1 a PT2)
                                                            (eqb
                                                              (is_some
                                                                (s1.panm
                                                                  (c1 s1)))
                                                              (zb v)))
                                                          (one a) (keep x))
                                                   | XO p9 ->
                                                     (match p9 with
                                                      | XI p10 ->
                                                        (match p10 with
                                                         | XH ->
                                                           if (||)
                                                                (phis x a (S
                                                                  (S (S O))))
                                                                (phis x a (S
                                                                  (S (S (S (S
                                                                  (S (S (S (S
                                                                  (S
                                                                  O)))))))))))
                                                           then Some { acts =
                                                                  []; nxt =
                                                                  (set_ph x a
                                                                    O) }
                                                           else None
                                                         | _ -> None)
                                                      | _ -> None)
                                                   | XH -> None)
                                                | XH ->
                                                  act_on s a (fun s1 ->
                                                    at_pc s1 a PBody)
                                                    (fun _ -> (Panic (a,
                                                    (Z.to_nat o))) :: [])
                                                    (keep x))
                                             | XO p7 ->
                                               (match p7 with
                                                | XI p8 ->
                                                  (match p8 with
                                                   | XI _ -> None
                                                   | XO p9 ->
                                                     (match p9 with
                                                      | XI p10 ->
                                                        (match p10 with
                                                         | XH ->
                                                           act_on s a
                                                             (fun s1 ->
                                                             (&&)
                                                               (at_pc s1 a
                                                                 PF4)
                                                               (is_co
                                                                 (s1.kindm
                                                                   (s1.bownerm
                                                                    (s1.awm a)))))
                                                             (one a)
                                                             (fun s1 _ ->
                                                             match bind_obj
                                                                    x.opk
                                                                    (s1.awm a)
                                                                    o with
                                                             | Some m ->
                                                               Some
                                                                 (set_opk x m)
                                                             | None -> None)
                                                         | _ -> None)
                                                      | XO _ -> None
                                                      | XH ->
                                                        act_on s a (fun s1 ->
                                                          at_pc s1 a PW1)
                                                          (one a)
                                                          (fun s1 _ ->
                                                          match bind_obj
                                                                  x.ojw
                                                                  (c1 s1) o with
                                                          | Some m ->
                                                            Some (set_ojw x m)
                                                          | None -> None))
                                                   | XH ->
                                                     if phis x a (S O)
                                                     then act_on s a
                                                            (fun s1 ->
                                                            (&&)
                                                              ((&&)
                                                                (at_pc s1 a
                                                                  PWW) 
                                                                (zb v))
                                                              (Z.eqb
                                                                (x.opk
                                                                  (s1.jbm a))
                                                                o)) (one a)
                                                            (fun _ _ -> Some
                                                            (set_ph x a O))
                                                     else if phis x a (S (S
                                                               (S (S (S (S (S
                                                               (S (S (S (S (S
                                                               O))))))))))))
                                                          then act_on s a
                                                                 (fun _ ->
                                                                 zb v)
                                                                 none_acts
                                                                 (fun _ _ ->
                                                                 Some
                                                                 (set_ph x a
                                                                   O))
                                                          else None)
                                                | XO p8 ->
                                                  (match p8 with
                                                   | XI p9 ->
                                                     (match p9 with
                                                      | XI _ -> None
                                                      | XO p10 ->
                                                        (match p10 with
                                                         | XH ->
                                                           (match x.nest a with
                                                            | O ->
                                                              act_on s a
                                                                (fun s1 ->
                                                                (&&)
                                                                  (at_pc s1 a
                                                                    PEn)
                                                                  (Z.eqb v
                                                                    (cword s1
                                                                    a)))
                                                                (one a)
                                                                (keep x)
                                                            | S n ->
                                                              if Z.eqb v
                                                                   (cwn s (S
                                                                    n) a)
                                                              then Some
                                                                    { acts =
                                                                    []; nxt =
                                                                    (set_nest
                                                                    x a n) }
                                                              else None)
                                                         | _ -> None)
                                                      | XH ->
                                                        act_on s a (fun s1 ->
                                                          (&&)
                                                            (at_pc s1 a PF3)
                                                            (eqb
                                                              (is_some
                                                                (s1.jwakem a))
                                                              (zb v)))
                                                          (one a) (fun _ _ ->
                                                          match bind_obj
                                                                  x.ojw a o with
                                                          | Some m ->
                                                            Some (set_ojw x m)
                                                          | None -> None))
                                                   | XO _ -> None
                                                   | XH ->
                                                     (match x.pmap
                                                              (Z.to_nat o) with
                                                      | O -> None
                                                      | S c ->
                                                        act_on s a (fun s1 ->
                                                          (&&)
                                                            ((&&)
                                                              (at_pc s1 a
                                                                PBody)
                                                              (Nat.eqb
                                                                (s1.gotm c)
                                                                (S O)))
                                                            (Z.eqb
                                                              (Z.of_nat
                                                                (s1.cvalm c))
                                                              v)) none_acts
                                                          (keep x)))
                                                | XH ->
                                                  act_on s a (fun s1 ->
                                                    at_pc s1 a PBody)
                                                    (fun _ -> (Close
                                                    a) :: []) (keep x))
                                             | XH -> None)
                                          | XO p6 ->
                                            (match p6 with
                                             | XI p7 ->
                                               (match p7 with
                                                | XI p8 ->
                                                  (match p8 with
                                                   | XI p9 ->
                                                     (match p9 with
                                                      | XH ->
                                                        act_on s a (fun s1 ->
                                                          (&&)
                                                            (at_pc s1 a PF1)
                                                            (negb
                                                              (unwinding
                                                                (s1.unwm a))))
                                                          none_acts (keep x)
                                                      | _ -> None)
                                                   | XO p9 ->
                                                     (match p9 with
                                                      | XH ->
                                                        act_on s a (fun s1 ->
                                                          (&&)
                                                            ((&&)
                                                              (at_pc s1 a PW2)
                                                              (eqb
                                                                (s1.jstm
                                                                  (c1 s1))
                                                                (zb v)))
                                                            (Z.eqb
                                                              (x.ojs (c1 s1))
                                                              o)) (one a)
                                                          (keep x)
                                                      | _ -> None)
                                                   | XH ->
                                                     act_on s a (fun s1 ->
                                                       (&&) (at_pc s1 a PF4)
                                                         (negb
                                                           (is_co
                                                             (s1.kindm
                                                               (s1.bownerm
                                                                 (s1.awm a))))))
                                                       (one a) (fun s1 _ ->
                                                       match bind_obj x.opk
                                                               (s1.awm a) o with
                                                       | Some m ->
                                                         Some (set_opk x m)
                                                       | None -> None))
                                                | XO p8 ->
                                                  (match p8 with
                                                   | XI p9 ->
                                                     (match p9 with
                                                      | XI _ -> None
                                                      | XO p10 ->
                                                        (match p10 with
                                                         | XH ->
                                                           if negb
                                                                (Nat.eqb
                                                                  (x.nest a)
                                                                  O)
                                                           then if Z.eqb v
                                                                    (cwn s
                                                                    (x.nest a)
                                                                    a)
                                                                then skip x
                                                                else None
                                                           else if at_pc s a
                                                                    PCk
                                                                then 
                                                                  act_on s a
                                                                    (fun s1 ->
                                                                    Z.eqb v
                                                                    (cword s1
                                                                    a))
                                                                    (one a)
                                                                    (keep x)
                                                                else 
                                                                  if 
                                                                    phis x a
                                                                    (S (S (S
                                                                    (S (S (S
                                                                    (S (S
                                                                    O))))))))
                                                                  then 
                                                                    act_on s
                                                                    a
                                                                    (fun s1 ->
                                                                    (&&)
                                                                    (at_pc s1
                                                                    a PWW)
                                                                    (Z.eqb v
                                                                    (cword s1
                                                                    a)))
                                                                    (one a)
                                                                    (fun s1 s3 ->
                                                                    Some
                                                                    (set_ph x
                                                                    a
                                                                    (if 
                                                                    raised s1
                                                                    s3 a
                                                                    then O
                                                                    else 
                                                                    S (S (S
                                                                    (S (S (S
                                                                    (S (S (S
                                                                    O)))))))))))
                                                                  else 
                                                                    if 
                                                                    phis x a
                                                                    (S (S (S
                                                                    (S (S (S
                                                                    O))))))
                                                                    then 
                                                                    act_on s
                                                                    a
                                                                    (fun s1 ->
                                                                    (&&)
                                                                    (Z.eqb v
                                                                    (cword s1
                                                                    a))
                                                                    (negb
                                                                    ((&&)
                                                                    (cancel_due
                                                                    s1 a)
                                                                    (negb
                                                                    (unwinding
                                                                    (s1.unwm
                                                                    a))))))
                                                                    none_acts
                                                                    (fun _ _ ->
                                                                    Some
                                                                    (set_ph x
                                                                    a (S (S
                                                                    (S (S (S
                                                                    (S (S (S
                                                                    (S
                                                                    O)))))))))))
                                                                    else 
                                                                    if 
                                                                    phis x a
                                                                    (S (S (S
                                                                    (S (S (S
                                                                    (S
                                                                    O)))))))
                                                                    then 
                                                                    act_on s
                                                                    a
                                                                    (fun s1 ->
                                                                    Z.eqb v
                                                                    (cword s1
                                                                    a))
                                                                    none_acts
                                                                    (fun _ _ ->
                                                                    Some
                                                                    (set_ph x
                                                                    a (S (S
                                                                    (S (S (S
                                                                    (S (S (S
                                                                    (S
                                                                    O)))))))))))
                                                                    else 
                                                                    if 
                                                                    phis x a
                                                                    (S (S (S
                                                                    (S (S (S
                                                                    (S (S (S
                                                                    (S (S (S
                                                                    (S
                                                                    O)))))))))))))
                                                                    then 
                                                                    act_on s
                                                                    a
                                                                    (fun s1 ->
                                                                    Z.eqb v
                                                                    (cword s1
                                                                    a))
                                                                    none_acts
                                                                    (fun _ _ ->
                                                                    Some
                                                                    (set_ph x
                                                                    a O))
                                                                    else 
                                                                    if 
                                                                    (&&)
                                                                    (phis x a
                                                                    O)
                                                                    (at_pc s
                                                                    a PBody)
                                                                    then 
                                                                    act_on s
                                                                    a
                                                                    (fun s1 ->
                                                                    Z.eqb v
                                                                    (cword s1
                                                                    a))
                                                                    (fun s1 ->
                                                                    if 
                                                                    (&&)
                                                                    (Z.eqb v
                                                                    (Zpos XH))
                                                                    (negb
                                                                    (unwinding
                                                                    (s1.unwm
                                                                    a)))
                                                                    then 
                                                                    (CPoint
                                                                    a) :: []
                                                                    else [])
                                                                    (keep x)
                                                                    else None
                                                         | _ -> None)
                                                      | XH ->
                                                        act_on s a (fun s1 ->
                                                          (&&)
                                                            (at_pc s1 a PT1)
                                                            (eqb
                                                              (s1.ipktm
                                                                (c1 s1))
                                                              (zb v)))
                                                          (one a) (keep x))
                                                   | XO p9 ->
                                                     (match p9 with
                                                      | XI p10 ->
                                                        (match p10 with
                                                         | XH ->
                                                           if phis x a O
                                                           then act_on s a
                                                                  (fun s1 ->
                                                                  (&&)
                                                                    ((&&)
                                                                    (at_pc s1
                                                                    a PPark)
                                                                    (is_co
                                                                    (s1.kindm
                                                                    a)))
                                                                    (eqb
                                                                    (s1.tokm
                                                                    (s1.jbm a))
                                                                    (zb v)))
                                                                  (fun _ ->
                                                                  if zb v
                                                                  then 
                                                                    (Step
                                                                    a) :: []
                                                                  else [])
                                                                  (fun s1 _ ->
                                                                  match 
                                                                  bind_obj
                                                                    x.opk
                                                                    (s1.jbm a)
                                                                    o with
                                                                  | Some m ->
                                                                    Some
                                                                    (set_ph
                                                                    (set_opk
                                                                    x m) a
                                                                    (if zb v
                                                                    then 
                                                                    S (S (S
                                                                    O))
                                                                    else 
                                                                    S (S (S
                                                                    (S (S
                                                                    O))))))
                                                                  | None ->
                                                                    None)
                                                           else if phis x a
                                                                    (S (S (S
                                                                    (S (S (S
                                                                    (S (S (S
                                                                    O)))))))))
                                                                then 
                                                                  Some
                                                                    { acts =
                                                                    []; nxt =
                                                                    (set_ph x
                                                                    a
                                                                    (if zb v
                                                                    then 
                                                                    S (S (S
                                                                    (S (S (S
                                                                    (S (S (S
                                                                    (S
                                                                    O)))))))))
                                                                    else 
                                                                    S (S (S
                                                                    (S (S (S
                                                                    (S (S (S
                                                                    (S (S
                                                                    O)))))))))))) }
                                                                else None
                                                         | _ -> None)
                                                      | _ -> None)
                                                   | XH ->
                                                     act_on s a (fun s1 ->
                                                       at_pc s1 a PBody)
                                                       (fun _ -> (Finish (a,
                                                       (Z.to_nat v))) :: [])
                                                       (keep x))
                                                | XH ->
                                                  act_on s a (fun s1 ->
                                                    at_pc s1 a PDrop) 
                                                    (one a) (keep x))
                                             | XO p7 ->
                                               (match p7 with
                                                | XI p8 ->
                                                  (match p8 with
                                                   | XI p9 ->
                                                     (match p9 with
                                                      | XH ->
                                                        act_on s a (fun s1 ->
                                                          (&&)
                                                            (at_pc s1 a PF1)
                                                            (is_upanic
                                                              (s1.unwm a)))
                                                          none_acts (keep x)
                                                      | _ -> None)
                                                   | XO p9 ->
                                                     (match p9 with
                                                      | XI p10 ->
                                                        (match p10 with
                                                         | XH ->
                                                           if phis x a (S (S
                                                                (S (S (S
                                                                O)))))
                                                           then act_on s a
                                                                  (fun s1 ->
                                                                  (&&)
                                                                    ((&&)
                                                                    (at_pc s1
                                                                    a PPark)
                                                                    (eqb
                                                                    (s1.tokm
                                                                    (s1.jbm a))
                                                                    (zb v)))
                                                                    (Z.eqb
                                                                    (x.opk
                                                                    (s1.jbm a))
                                                                    o))
                                                                  (fun _ ->
                                                                  if zb v
                                                                  then 
                                                                    (Step
                                                                    a) :: []
                                                                  else [])
                                                                  (fun _ _ ->
                                                                  Some
                                                                  (set_ph x a
                                                                    (
                                                                    if zb v
                                                                    then O
                                                                    else 
                                                                    S (S O))))
                                                           else if phis x a
                                                                    (S (S (S
                                                                    (S (S (S
                                                                    (S (S (S
                                                                    (S (S
                                                                    O)))))))))))
                                                                then 
                                                                  Some
                                                                    { acts =
                                                                    []; nxt =
                                                                    (set_ph x
                                                                    a O) }
                                                                else None
                                                         | _ -> None)
                                                      | XO _ -> None
                                                      | XH ->
                                                        act_on s a (fun s1 ->
                                                          (&&)
                                                            (at_pc s1 a PW0)
                                                            (eqb
                                                              (s1.jstm
                                                                (c1 s1))
                                                              (zb v)))
                                                          (one a)
                                                          (fun s1 _ ->
                                                          match bind_obj
                                                                  x.ojs
                                                                  (c1 s1) o with
                                                          | Some m ->
                                                            Some (set_ojs x m)
                                                          | None -> None))
                                                   | XH ->
                                                     act_on s a (fun s1 ->
                                                       (&&)
                                                         ((&&)
                                                           (at_pc s1 a PPark)
                                                           (negb
                                                             (is_co
                                                               (s1.kindm a))))
                                                         (phis x a O))
                                                       (one a) (fun s1 s3 ->
                                                       match bind_obj x.opk
                                                               (s1.jbm a) o with
                                                       | Some m ->
                                                         Some
                                                           (set_ph
                                                             (set_opk x m) a
                                                             (if at_pc s3 a
                                                                   PWW
                                                              then S O
                                                              else S (S (S (S
                                                                    (S (S (S
                                                                    (S (S (S
                                                                    (S (S
                                                                    O)))))))))))))
                                                       | None -> None))
                                                | XO p8 ->
                                                  (match p8 with
                                                   | XI p9 ->
                                                     (match p9 with
                                                      | XI _ -> None
                                                      | XO p10 ->
                                                        (match p10 with
                                                         | XH ->
                                                           if (&&)
                                                                (Nat.eqb
                                                                  (x.nest a)
                                                                  O)
                                                                ((||)
                                                                  (at_pc s a
                                                                    PJ0)
                                                                  (at_pc s a
                                                                    PDrop))
                                                           then act_on s a
                                                                  (fun s1 ->
                                                                  (&&)
                                                                    ((&&)
                                                                    (at_pc s1
                                                                    a PJ0)
                                                                    (is_co
                                                                    (s1.kindm
                                                                    a)))
                                                                    (Z.eqb v
                                                                    (cword s1
                                                                    a)))
                                                                  (one a)
                                                                  (keep x)
                                                           else if Z.eqb v
                                                                    (cwn s
                                                                    (x.nest a)
                                                                    a)
                                                                then 
                                                                  Some
                                                                    { acts =
                                                                    []; nxt =
                                                                    (set_nest
                                                                    x a (S
                                                                    (x.nest a))) }
                                                                else None
                                                         | _ -> None)
                                                      | XH ->
                                                        act_on s a (fun s1 ->
                                                          (&&)
                                                            ((||)
                                                              (at_pc s1 a PF1)
                                                              (at_pc s1 a PF2))
                                                            (negb (zb v)))
                                                          (fun s1 ->
                                                          if at_pc s1 a PF1
                                                          then (Step
                                                                 a) :: ((Step
                                                                 a) :: [])
                                                          else (Step a) :: [])
                                                          (fun _ _ ->
                                                          match bind_obj
                                                                  x.ojs a o with
                                                          | Some m ->
                                                            Some (set_ojs x m)
                                                          | None -> None))
                                                   | XO _ -> None
                                                   | XH ->
                                                     (match x.pmap
                                                              (Z.to_nat o) with
                                                      | O -> None
                                                      | S c ->
                                                        act_on s a (fun s1 ->
                                                          at_pc s1 a PBody)
                                                          (fun _ -> (Join (a,
                                                          c)) :: []) 
                                                          (keep x)))
                                                | XH ->
                                                  act_on s a (fun s1 ->
                                                    at_pc s1 a PBody)
                                                    (fun _ -> (Open a) :: [])
                                                    (keep x))
                                             | XH ->
                                               let n = s.nexta in
                                               act_on s a (fun s1 ->
                                                 at_pc s1 a PBody) (fun _ ->
                                                 (Spawn (a,
                                                 (Z.to_nat v))) :: [])
                                                 (fun _ _ -> Some
                                                 (set_pmap x
                                                   (upd x.pmap (Z.to_nat o)
                                                     (S n)))))
                                          | XH -> None)
                                       | _ -> None)
                                    | None -> skip x))
                              | _ ->
                                (match task x ta with
                                 | Some a ->
                                   let c1 = fun s1 -> s1.jcm a in
                                   (match code with
                                    | Zpos p4 ->
                                      (match p4 with
                                       | XI p5 ->
                                         (match p5 with
                                          | XI p6 ->
                                            (match p6 with
                                             | XI p7 ->
                                               (match p7 with
                                                | XI p8 ->
                                                  (match p8 with
                                                   | XH ->
                                                     act_on s a (fun s1 ->
                                                       (&&) (at_pc s1 a PRet)
                                                         (zb v)) (one a)
                                                       (keep x)
                                                   | _ -> None)
                                                | XO p8 ->
                                                  (match p8 with
                                                   | XH ->
                                                     act_on s a (fun s1 ->
                                                       (&&)
                                                         ((&&)
                                                           (at_pc s1 a PW3)
                                                           (eqb
                                                             (is_some
                                                               (s1.jwakem
                                                                 (c1 s1)))
                                                             (zb v)))
                                                         (Z.eqb
                                                           (x.ojw (c1 s1)) o))
                                                       (one a) (keep x)
                                                   | _ -> None)
                                                | XH -> None)
                                             | XO p7 ->
                                               (match p7 with
                                                | XI p8 ->
                                                  (match p8 with
                                                   | XI _ -> None
                                                   | XO p9 ->
                                                     (match p9 with
                                                      | XH ->
                                                        if negb
                                                             (Nat.eqb
                                                               (x.nest a) O)
                                                        then if Z.eqb v
                                                                  (cwn s
                                                                    (x.nest a)
                                                                    a)
                                                             then skip x
                                                             else None
                                                        else if phis x a (S
                                                                  (S O))
                                                             then act_on s a
                                                                    (fun s1 ->
                                                                    (&&)
                                                                    (at_pc s1
                                                                    a PPark)
                                                                    (Z.eqb v
                                                                    (cword s1
                                                                    a)))
                                                                    (one a)
                                                                    (fun s1 s3 ->
                                                                    Some
                                                                    (set_ph x
                                                                    a
                                                                    (if 
                                                                    s1.tokm
                                                                    (s1.jbm a)
                                                                    then 
                                                                    S (S (S
                                                                    (S (S (S
                                                                    O)))))
                                                                    else 
                                                                    if 
                                                                    at_pc s3
                                                                    a PWW
                                                                    then 
                                                                    S (S (S
                                                                    (S (S (S
                                                                    (S (S
                                                                    O)))))))
                                                                    else 
                                                                    if 
                                                                    raised s1
                                                                    s3 a
                                                                    then 
                                                                    S (S (S
                                                                    (S (S (S
                                                                    (S (S (S
                                                                    (S (S (S
                                                                    (S
                                                                    O))))))))))))
                                                                    else 
                                                                    S (S (S
                                                                    (S (S (S
                                                                    (S O)))))))))
                                                             else act_on s a
                                                                    (fun s1 ->
                                                                    Z.eqb v
                                                                    (cword s1
                                                                    a))
                                                                    none_acts
                                                                    (keep x)
                                                      | _ -> None)
                                                   | XH ->
                                                     act_on s a (fun s1 ->
                                                       (&&) (at_pc s1 a PT2)
                                                         (eqb
                                                           (is_some
                                                             (s1.panm (c1 s1)))
                                                           (zb v))) (one a)
                                                       (keep x))
                                                | XO p8 ->
                                                  (match p8 with
                                                   | XI p9 ->
                                                     (match p9 with
                                                      | XH ->
                                                        if (||)
                                                             (phis x a (S (S
                                                               (S O))))
                                                             (phis x a (S (S
                                                               (S (S (S (S (S
                                                               (S (S (S
                                                               O)))))))))))
                                                        then Some { acts =
                                                               []; nxt =
                                                               (set_ph x a O) }
                                                        else None
                                                      | _ -> None)
                                                   | _ -> None)
                                                | XH -> None)
                                             | XH ->
                                               act_on s a (fun s1 ->
                                                 at_pc s1 a PBody) (fun _ ->
                                                 (Panic (a,
                                                 (Z.to_nat o))) :: [])
                                                 (keep x))
                                          | XO p6 ->
                                            (match p6 with
                                             | XI p7 ->
                                               (match p7 with
                                                | XI _ -> None
                                                | XO p8 ->
                                                  (match p8 with
                                                   | XI p9 ->
                                                     (match p9 with
                                                      | XH ->
                                                        act_on s a (fun s1 ->
                                                          (&&)
                                                            (at_pc s1 a PF4)
                                                            (is_co
                                                              (s1.kindm
                                                                (s1.bownerm
                                                                  (s1.awm a)))))
                                                          (one a)
                                                          (fun s1 _ ->
                                                          match bind_obj
                                                                  x.opk
                                                                  (s1.awm a) o with
                                                          | Some m ->
                                                            Some (set_opk x m)
                                                          | None -> None)
                                                      | _ -> None)
                                                   | XO _ -> None
                                                   | XH ->
                                                     act_on s a (fun s1 ->
                                                       at_pc s1 a PW1)
                                                       (one a) (fun s1 _ ->
                                                       match bind_obj x.ojw
                                                               (c1 s1) o with
                                                       | Some m ->
                                                         Some (set_ojw x m)
                                                       | None -> None))
                                                | XH ->
                                                  if phis x a (S O)
                                                  then act_on s a (fun s1 ->
                                                         (&&)
                                                           ((&&)
                                                             (at_pc s1 a PWW)
                                                             (zb v))
                                                           (Z.eqb
                                                             (x.opk
                                                               (s1.jbm a)) o))
                                                         (one a) (fun _ _ ->
                                                         Some (set_ph x a O))
                                                  else if phis x a (S (S (S
                                                            (S (S (S (S (S (S
                                                            (S (S (S
                                                            O))))))))))))
                                                       then act_on s a
                                                              (fun _ -> 
                                                              zb v) none_acts
                                                              (fun _ _ ->
                                                              Some
                                                              (set_ph x a O))
                                                       else None)
                                             | XO p7 ->
                                               (match p7 with
                                                | XI p8 ->
                                                  (match p8 with
                                                   | XI _ -> None
                                                   | XO p9 ->
                                                     (match p9 with
                                                      | XH ->
                                                        (match x.nest a with
                                                         | O ->
                                                           act_on s a
                                                             (fun s1 ->
                                                             (&&)
                                                               (at_pc s1 a
                                                                 PEn)
                                                               (Z.eqb v
                                                                 (cword s1 a)))
                                                             (one a) 
                                                             (keep x)
                                                         | S n ->
                                                           if Z.eqb v
                                                                (cwn s (S n)
                                                                  a)
                                                           then Some { acts =
                                                                  []; nxt =
                                                                  (set_nest x
                                                                    a n) }
                                                           else None)
                                                      | _ -> None)
                                                   | XH ->
                                                     act_on s a (fun s1 ->
                                                       (&&) (at_pc s1 a PF3)
                                                         (eqb
                                                           (is_some
                                                             (s1.jwakem a))
                                                           (zb v))) (one a)
                                                       (fun _ _ ->
                                                       match bind_obj x.ojw a
                                                               o with
                                                       | Some m ->
                                                         Some (set_ojw x m)
                                                       | None -> None))
                                                | XO _ -> None
                                                | XH ->
                                                  (match x.pmap (Z.to_nat o) with
                                                   | O -> None
                                                   | S c ->
                                                     act_on s a (fun s1 ->
                                                       (&&)
                                                         ((&&)
                                                           (at_pc s1 a PBody)
                                                           (Nat.eqb
                                                             (s1.gotm c) (S
                                                             O)))
                                                         (Z.eqb
                                                           (Z.of_nat
                                                             (s1.cvalm c)) v))
                                                       none_acts (keep x)))
                                             | XH ->
                                               act_on s a (fun s1 ->
                                                 at_pc s1 a PBody) (fun _ ->
                                                 (Close a) :: []) (keep x))
                                          | XH -> None)
                                       | XO p5 ->
                                         (match p5 with
                                          | XI p6 ->
                                            (match p6 with
                                             | XI p7 ->
                                               (match p7 with
                                                | XI p8 ->
                                                  (match p8 with
                                                   | XH ->
                                                     act_on s a (fun s1 ->
                                                       (&&) (at_pc s1 a PF1)
                                                         (negb
                                                           (unwinding
                                                             (s1.unwm a))))
                                                       none_acts (keep x)
                                                   | _ -> None)
                                                | XO p8 ->
                                                  (match p8 with
                                                   | XH ->
                                                     act_on s a (fun s1 ->
                                                       (&&)
                                                         ((&&)
                                                           (at_pc s1 a PW2)
                                                           (eqb
                                                             (s1.jstm (c1 s1))
                                                             (zb v)))
                                                         (Z.eqb
                                                           (x.ojs (c1 s1)) o))
                                                       (one a) (keep x)
                                                   | _ -> None)
                                                | XH ->
                                                  act_on s a (fun s1 ->
                                                    (&&) (at_pc s1 a PF4)
                                                      (negb
                                                        (is_co
                                                          (s1.kindm
                                                            (s1.bownerm
                                                              (s1.awm a))))))
                                                    (one a) (fun s1 _ ->
                                                    match bind_obj x.opk
                                                            (s1.awm a) o with
                                                    | Some m ->
                                                      Some (set_opk x m)
                                                    | None -> None))
                                             | XO p7 ->
                                               (match p7 with
                                                | XI p8 ->
                                                  (match p8 with
                                                   | XI _ -> None
                                                   | XO p9 ->
                                                     (match p9 with
                                                      | XH ->
                                                        if negb
                                                             (Nat.eqb
                                                               (x.nest a) O)
                                                        then if Z.eqb v
                                                                  (cwn s
                                                                    (x.nest a)
                                                                    a)
                                                             then skip x
                                                             else None
                                                        else if at_pc s a PCk
                                                             then act_on s a
                                                                    (fun s1 ->
                                                                    Z.eqb v
                                                                    (cword s1
                                                                    a))
                                                                    (one a)
                                                                    (keep x)
                                                             else if 
                                                                    phis x a
                                                                    (S (S (S
                                                                    (S (S (S
                                                                    (S (S
                                                                    O))))))))
                                                                  then 
                                                                    act_on s
                                                                    a
                                                                    (fun s1 ->
                                                                    (&&)
                                                                    (at_pc s1
                                                                    a PWW)
                                                                    (Z.eqb v
                                                                    (cword s1
                                                                    a)))
                                                                    (one a)
                                                                    (fun s1 s3 ->
                                                                    Some
                                                                    (set_ph x
                                                                    a
                                                                    (if 
                                                                    raised s1
                                                                    s3 a
                                                                    then O
                                                                    else 
                                                                    S (S (S
                                                                    (S (S (S
                                                                    (S (S (S
                                                                    O)))))))))))
                                                                  else 
                                                                    if 
                                                                    phis x a
                                                                    (S (S (S
                                                                    (S (S (S
                                                                    O))))))
                                                                    then 
                                                                    act_on s
                                                                    a
                                                                    (fun s1 ->
                                                                    (&&)
                                                                    (Z.eqb v
                                                                    (cword s1
                                                                    a))
                                                                    (negb
                                                                    ((&&)
                                                                    (cancel_due
                                                                    s1 a)
                                                                    (negb
                                                                    (unwinding
                                                                    (s1.unwm
                                                                    a))))))
                                                                    none_acts
                                                                    (fun _ _ ->
                                                                    Some
                                                                    (set_ph x
                                                                    a (S (S
                                                                    (S (S (S
                                                                    (S (S (S
                                                                    (S
                                                                    O)))))))))))
                                                                    else 
                                                                    if 
                                                                    phis x a
                                                                    (S (S (S
                                                                    (S (S (S
                                                                    (S
                                                                    O)))))))
                                                                    then 
                                                                    act_on s
                                                                    a
                                                                    (fun s1 ->
                                                                    Z.eqb v
                                                                    (cword s1
                                                                    a))
                                                                    none_acts
                                                                    (fun _ _ ->
                                                                    Some
                                                                    (set_ph x
                                                                    a (S (S
                                                                    (S (S (S
                                                                    (S (S (S
                                                                    (S
                                                                    O)))))))))))
                                                                    else 
                                                                    if 
                                                                    phis x a
                                                                    (S (S (S
                                                                    (S (S (S
                                                                    (S (S (S
                                                                    (S (S (S
                                                                    (S
                                                                    O)))))))))))))
                                                                    then 
                                                                    act_on s
                                                                    a
                                                                    (fun s1 ->
                                                                    Z.eqb v
                                                                    (cword s1
                                                                    a))
                                                                    none_acts
                                                                    (fun _ _ ->
                                                                    Some
                                                                    (set_ph x
                                                                    a O))
                                                                    else 
                                                                    if 
                                                                    (&&)
                                                                    (phis x a
                                                                    O)
                                                                    (at_pc s
                                                                    a PBody)
                                                                    then 
                                                                    act_on s
                                                                    a
                                                                    (fun s1 ->
                                                                    Z.eqb v
                                                                    (cword s1
                                                                    a))
                                                                    (fun s1 ->
                                                                    if 
                                                                    (&&)
                                                                    (Z.eqb v
                                                                    (Zpos XH))
                                                                    (negb
                                                                    (unwinding
                                                                    (s1.unwm
                                                                    a)))
                                                                    then 
                                                                    (CPoint
                                                                    a) :: []
                                                                    else [])
                                                                    (keep x)
                                                                    else None
                                                      | _ -> None)
                                                   | XH ->
                                                     act_on s a (fun s1 ->
                                                       (&&) (at_pc s1 a PT1)
                                                         (eqb
                                                           (s1.ipktm (c1 s1))
                                                           (zb v))) (one a)
                                                       (keep x))
                                                | XO p8 ->
                                                  (match p8 with
                                                   | XI p9 ->
                                                     (match p9 with
                                                      | XH ->
                                                        if phis x a O
                                                        then act_on s a
                                                               (fun s1 ->
                                                               (&&)
                                                                 ((&&)
                                                                   (at_pc s1
                                                                    a PPark)
                                                                   (is_co
                                                                    (s1.kindm
                                                                    a)))
                                                                 (eqb
                                                                   (s1.tokm
                                                                    (s1.jbm a))
                                                                   (zb v)))
                                                               (fun _ ->
                                                               if zb v
                                                               then (Step
                                                                    a) :: []
                                                               else [])
                                                               (fun s1 _ ->
                                                               match 
                                                               bind_obj x.opk
                                                                 (s1.jbm a) o with
                                                               | Some m ->
                                                                 Some
                                                                   (set_ph
                                                                    (set_opk
                                                                    x m) a
                                                                    (if zb v
                                                                    then 
                                                                    S (S (S
                                                                    O))
                                                                    else 
                                                                    S (S (S
                                                                    (S (S
                                                                    O))))))
                                                               | None -> None)
                                                        else if phis x a (S
                                                                  (S (S (S (S
                                                                  (S (S (S (S
                                                                  O)))))))))
                                                             then Some
                                                                    { acts =
                                                                    []; nxt =
                                                                    (set_ph x
                                                                    a
                                                                    (if zb v
                                                                    then 
                                                                    S (S (S
                                                                    (S (S (S
                                                                    (S (S (S
                                                                    (S
                                                                    O)))))))))
                                                                    else 
                                                                    S (S (S
                                                                    (S (S (S
                                                                    (S (S (S
                                                                    (S (S
                                                                    O)))))))))))) }
                                                             else None
                                                      | _ -> None)
                                                   | _ -> None)
                                                | XH ->
                                                  act_on s a (fun s1 ->
                                                    at_pc s1 a PBody)
                                                    (fun _ -> (Finish (a,
                                                    (Z.to_nat v))) :: [])
                                                    (keep x))
                                             | XH ->
                                               act_on s a (fun s1 ->
                                                 at_pc s1 a PDrop) (one a)
                                                 (keep x))
                                          | XO p6 ->
                                            (match p6 with
                                             | XI p7 ->
                                               (match p7 with
                                                | XI p8 ->
                                                  (match p8 with
                                                   | XH ->
                                                     act_on s a (fun s1 ->
                                                       (&&) (at_pc s1 a PF1)
                                                         (is_upanic
                                                           (s1.unwm a)))
                                                       none_acts (keep x)
                                                   | _ -> None)
                                                | XO p8 ->
                                                  (match p8 with
                                                   | XI p9 ->
                                                     (match p9 with
                                                      | XH ->
                                                        if phis x a (S (S (S
                                                             (S (S O)))))
                                                        then act_on s a
                                                               (fun s1 ->
                                                               (&&)
                                                                 ((&&)
                                                                   (at_pc s1
                                                                    a PPark)
                                                                   (eqb
                                                                    (s1.tokm
                                                                    (s1.jbm a))
                                                                    (zb v)))
                                                                 (Z.eqb
                                                                   (x.opk
                                                                    (s1.jbm a))
                                                                   o))
                                                               (fun _ ->
                                                               if zb v
                                                               then (Step
                                                                    a) :: []
                                                               else [])
                                                               (fun _ _ ->
                                                               Some
                                                               (set_ph x a
                                                                 (if zb v
                                                                  then O
                                                                  else S (S O))))
                                                        else if phis x a (S
                                                                  (S (S (S (S
                                                                  (S (S (S (S
                                                                  (S (S
                                                                  O)))))))))))
                                                             then Some
                                                                    { acts =
                                                                    []; nxt =
                                                                    (set_ph x
                                                                    a O) }
                                                             else None
                                                      | _ -> None)
                                                   | XO _ -> None
                                                   | XH ->
                                                     act_on s a (fun s1 ->
                                                       (&&) (at_pc s1 a PW0)
                                                         (eqb
                                                           (s1.jstm (c1 s1))
                                                           (zb v))) (one a)
                                                       (fun s1 _ ->
                                                       match bind_obj x.ojs
                                                               (c1 s1) o with
                                                       | Some m ->
                                                         Some (set_ojs x m)
                                                       | None -> None))
                                                | XH ->
                                                  act_on s a (fun s1 ->
                                                    (&&)
                                                      ((&&)
                                                        (at_pc s1 a PPark)
                                                        (negb
                                                          (is_co (s1.kindm a))))
                                                      (phis x a O)) (one a)
                                                    (fun s1 s3 ->
                                                    match bind_obj x.opk
                                                            (s1.jbm a) o with
                                                    | Some m ->
                                                      Some
                                                        (set_ph (set_opk x m)
                                                          a
                                                          (if at_pc s3 a PWW
                                                           then S O
                                                           else S (S (S (S (S
                                                                  (S (S (S (S
                                                                  (S (S (S
                                                                  O)))))))))))))
                                                    | None -> None))
                                             | XO p7 ->
                                               (match p7 with
                                                | XI p8 ->
                                                  (match p8 with
                                                   | XI _ -> None
                                                   | XO p9 ->
                                                     (match p9 with
                                                      | XH ->
                                                        if (&&)
                                                             (Nat.eqb
                                                               (x.nest a) O)
                                                             ((||)
                                                               (at_pc s a PJ0)
                                                               (at_pc s a
                                                                 PDrop))
                                                        then act_on s a
                                                               (fun s1 ->
                                                               (&&)
                                                                 ((&&)
                                                                   (at_pc s1
                                                                    a PJ0)
                                                                   (is_co
                                                                    (s1.kindm
                                                                    a)))
                                                                 (Z.eqb v
                                                                   (cword s1
                                                                    a)))
                                                               (one a)
                                                               (keep x)
                                                        else if Z.eqb v
                                                                  (cwn s
                                                                    (x.nest a)
                                                                    a)
                                                             then Some
                                                                    { acts =
                                                                    []; nxt =
                                                                    (set_nest
                                                                    x a (S
                                                                    (x.nest a))) }
                                                             else None
                                                      | _ -> None)
                                                   | XH ->
                                                     act_on s a (fun s1 ->
                                                       (&&)
                                                         ((||)
                                                           (at_pc s1 a PF1)
                                                           (at_pc s1 a PF2))
                                                         (negb (zb v)))
                                                       (fun s1 ->
                                                       if at_pc s1 a PF1
                                                       then (Step
                                                              a) :: ((Step
                                                              a) :: [])
                                                       else (Step a) :: [])
                                                       (fun _ _ ->
                                                       match bind_obj x.ojs a
                                                               o with
                                                       | Some m ->
                                                         Some (set_ojs x m)
                                                       | None -> None))
                                                | XO _ -> None
                                                | XH ->
                                                  (match x.pmap (Z.to_nat o) with
                                                   | O -> None
                                                   | S c ->
                                                     act_on s a (fun s1 ->
                                                       at_pc s1 a PBody)
                                                       (fun _ -> (Join (a,
                                                       c)) :: []) (keep x)))
                                             | XH ->
                                               act_on s a (fun s1 ->
                                                 at_pc s1 a PBody) (fun _ ->
                                                 (Open a) :: []) (keep x))
                                          | XH ->
                                            let n = s.nexta in
                                            act_on s a (fun s1 ->
                                              at_pc s1 a PBody) (fun _ ->
                                              (Spawn (a,
                                              (Z.to_nat v))) :: [])
                                              (fun _ _ -> Some
                                              (set_pmap x
                                                (upd x.pmap (Z.to_nat o) (S
                                                  n)))))
                                       | XH -> None)
                                    | _ -> None)
                                 | None -> skip x))
                           | _ ->
                             (match task x ta with
                              | Some a ->
                                let c1 = fun s1 -> s1.jcm a in
                                (match code with
                                 | Zpos p3 ->
                                   (match p3 with
                                    | XI p4 ->
                                      (match p4 with
                                       | XI p5 ->
                                         (match p5 with
                                          | XI p6 ->
                                            (match p6 with
                                             | XI p7 ->
                                               (match p7 with
                                                | XH ->
                                                  act_on s a (fun s1 ->
                                                    (&&) (at_pc s1 a PRet)
                                                      (zb v)) (one a) 
                                                    (keep x)
                                                | _ -> None)
                                             | XO p7 ->
                                               (match p7 with
                                                | XH ->
                                                  act_on s a (fun s1 ->
                                                    (&&)
                                                      ((&&) (at_pc s1 a PW3)
                                                        (eqb
                                                          (is_some
                                                            (s1.jwakem
                                                              (c1 s1)))
                                                          (zb v)))
                                                      (Z.eqb (x.ojw (c1 s1))
                                                        o)) (one a) (keep x)
                                                | _ -> None)
                                             | XH -> None)
                                          | XO p6 ->
                                            (match p6 with
                                             | XI p7 ->
                                               (match p7 with
                                                | XI _ -> None
                                                | XO p8 ->
                                                  (match p8 with
                                                   | XH ->
                                                     if negb
                                                          (Nat.eqb (x.nest a)
                                                            O)
                                                     then if Z.eqb v
                                                               (cwn s
                                                                 (x.nest a) a)
                                                          then skip x
                                                          else None
                                                     else if phis x a (S (S
                                                               O))
                                                          then act_on s a
                                                                 (fun s1 ->
                                                                 (&&)
                                                                   (at_pc s1
                                                                    a PPark)
                                                                   (Z.eqb v
                                                                    (cword s1
                                                                    a)))
                                                                 (one a)
                                                                 (fun s1 s3 ->
                                                                 Some
                                                                 (set_ph x a
                                                                   (if 
                                                                    s1.tokm
                                                                    (s1.jbm a)
                                                                    then 
                                                                    S (S (S
                                                                    (S (S (S
                                                                    O)))))
                                                                    else 
                                                                    if 
                                                                    at_pc s3
                                                                    a PWW
                                                                    then 
                                                                    S (S (S
                                                                    (S (S (S
                                                                    (S (S
                                                                    O)))))))
                                                                    else 
                                                                    if 
                                                                    raised s1
                                                                    s3 a
                                                                    then 
                                                                    S (S (S
                                                                    (S (S (S
                                                                    (S (S (S
                                                                    (S (S (S
                                                                    (S
                                                                    O))))))))))))
                                                                    else 
                                                                    S (S (S
                                                                    (S (S (S
                                                                    (S O)))))))))
                                                          else act_on s a
                                                                 (fun s1 ->
                                                                 Z.eqb v
                                                                   (cword s1
                                                                    a))
                                                                 none_acts
                                                                 (keep x)
                                                   | _ -> None)
                                                | XH ->
                                                  act_on s a (fun s1 ->
                                                    (&&) (at_pc s1 a PT2)
                                                      (eqb
                                                        (is_some
                                                          (s1.panm (c1 s1)))
                                                        (zb v))) (one a)
                                                    (keep x))
                                             | XO p7 ->
                                               (match p7 with
                                                | XI p8 ->
                                                  (match p8 with
                                                   | XH ->
                                                     if (||)
                                                          (phis x a (S (S (S
                                                            O))))
                                                          (phis x a (S (S (S
                                                            (S (S (S (S (S (S
                                                            (S O)))))))))))
                                                     then Some { acts = [];
                                                            nxt =
                                                            (set_ph x a O) }
                                                     else None
                                                   | _ -> None)
                                                | _ -> None)
                                             | XH -> None)
                                          | XH ->
                                            act_on s a (fun s1 ->
                                              at_pc s1 a PBody) (fun _ ->
                                              (Panic (a,
                                              (Z.to_nat o))) :: []) (keep x))
                                       | XO p5 ->
                                         (match p5 with
                                          | XI p6 ->
                                            (match p6 with
                                             | XI _ -> None
                                             | XO p7 ->
                                               (match p7 with
                                                | XI p8 ->
                                                  (match p8 with
                                                   | XH ->
                                                     act_on s a (fun s1 ->
                                                       (&&) (at_pc s1 a PF4)
                                                         (is_co
                                                           (s1.kindm
                                                             (s1.bownerm
                                                               (s1.awm a)))))
                                                       (one a) (fun s1 _ ->
                                                       match bind_obj x.opk
                                                               (s1.awm a) o with
                                                       | Some m ->
                                                         Some (set_opk x m)
                                                       | None -> None)
                                                   | _ -> None)
                                                | XO _ -> None
                                                | XH ->
                                                  act_on s a (fun s1 ->
                                                    at_pc s1 a PW1) (one a)
                                                    (fun s1 _ ->
                                                    match bind_obj x.ojw
                                                            (c1 s1) o with
                                                    | Some m ->
                                                      Some (set_ojw x m)
                                                    | None -> None))
                                             | XH ->
                                               if phis x a (S O)
                                               then act_on s a (fun s1 ->
                                                      (&&)
                                                        ((&&)
                                                          (at_pc s1 a PWW)
                                                          (zb v))
                                                        (Z.eqb
                                                          (x.opk (s1.jbm a))
                                                          o)) (one a)
                                                      (fun _ _ -> Some
                                                      (set_ph x a O))
                                               else if phis x a (S (S (S (S
                                                         (S (S (S (S (S (S (S
                                                         (S O))))))))))))
                                                    then act_on s a (fun _ ->
                                                           zb v) none_acts
                                                           (fun _ _ -> Some
                                                           (set_ph x a O))
                                                    else None)
                                          | XO p6 ->
                                            (match p6 with
                                             | XI p7 ->
                                               (match p7 with
                                                | XI _ -> None
                                                | XO p8 ->
                                                  (match p8 with
                                                   | XH ->
                                                     (match x.nest a with
                                                      | O ->
                                                        act_on s a (fun s1 ->
                                                          (&&)
                                                            (at_pc s1 a PEn)
                                                            (Z.eqb v
                                                              (cword s1 a)))
                                                          (one a) (keep x)
                                                      | S n ->
                                                        if Z.eqb v
                                                             (cwn s (S n) a)
                                                        then Some { acts =
                                                               []; nxt =
                                                               (set_nest x a
                                                                 n) }
                                                        else None)
                                                   | _ -> None)
                                                | XH ->
                                                  act_on s a (fun s1 ->
                                                    (&&) (at_pc s1 a PF3)
                                                      (eqb
                                                        (is_some
                                                          (s1.jwakem a))
                                                        (zb v))) (one a)
                                                    (fun _ _ ->
                                                    match bind_obj x.ojw a o with
                                                    | Some m ->
                                                      Some (set_ojw x m)
                                                    | None -> None))
                                             | XO _ -> None
                                             | XH ->
                                               (match x.pmap (Z.to_nat o) with
                                                | O -> None
                                                | S c ->
                                                  act_on s a (fun s1 ->
                                                    (&&)
                                                      ((&&)
                                                        (at_pc s1 a PBody)
                                                        (Nat.eqb (s1.gotm c)
                                                          (S O)))
                                                      (Z.eqb
                                                        (Z.of_nat
                                                          (s1.cvalm c)) v))
                                                    none_acts (keep x)))
                                          | XH ->
                                            act_on s a (fun s1 ->
                                              at_pc s1 a PBody) (fun _ ->
                                              (Close a) :: []) (keep x))
                                       | XH -> None)
                                    | XO p4 ->
                                      (match p4 with
                                       | XI p5 ->
                                         (match p5 with
                                          | XI p6 ->
                                            (match p6 with
                                             | XI p7 ->
                                               (match p7 with
                                                | XH ->
                                                  act_on s a (fun s1 ->
                                                    (&&) (at_pc s1 a PF1)
                                                      (negb
                                                        (unwinding
                                                          (s1.unwm a))))
                                                    none_acts (keep x)
                                                | _ -> None)
                                             | XO p7 ->
                                               (match p7 with
                                                | XH ->
                                                  act_on s a (fun s1 ->
                                                    (&&)
                                                      ((&&) (at_pc s1 a PW2)
                                                        (eqb
                                                          (s1.jstm (c1 s1))
                                                          (zb v)))
                                                      (Z.eqb (x.ojs (c1 s1))
                                                        o)) (one a) (keep x)
                                                | _ -> None)
                                             | XH ->
                                               act_on s a (fun s1 ->
                                                 (&&) (at_pc s1 a PF4)
                                                   (negb
                                                     (is_co
                                                       (s1.kindm
                                                         (s1.bownerm
                                                           (s1.awm a))))))
                                                 (one a) (fun s1 _ ->
                                                 match bind_obj x.opk
                                                         (s1.awm a) o with
                                                 | Some m ->
                                                   Some (set_opk x m)
                                                 | None -> None))
                                          | XO p6 ->
                                            (match p6 with
                                             | XI p7 ->
                                               (match p7 with
                                                | XI _ -> None
                                                | XO p8 ->
                                                  (match p8 with
                                                   | XH ->
                                                     if negb
                                                          (Nat.eqb (x.nest a)
                                                            O)
                                                     then if Z.eqb v
                                                               (cwn s
                                                                 (x.nest a) a)
                                                          then skip x
                                                          else None
                                                     else if at_pc s a PCk
                                                          then act_on s a
                                                                 (fun s1 ->
                                                                 Z.eqb v
                                                                   (cword s1
                                                                    a))
                                                                 (one a)
                                                                 (keep x)
                                                          else if phis x a (S
                                                                    (S (S (S
                                                                    (S (S (S
                                                                    (S
                                                                    O))))))))
                                                               then act_on s
                                                                    a
                                                                    (fun s1 ->
                                                                    (&&)
                                                                    (at_pc s1
                                                                    a PWW)
                                                                    (Z.eqb v
                                                                    (cword s1
                                                                    a)))
                                                                    (one a)
                                                                    (fun s1 s3 ->
                                                                    Some
                                                                    (set_ph x
                                                                    a
                                                                    (if 
                                                                    raised s1
                                                                    s3 a
                                                                    then O
                                                                    else 
                                                                    S (S (S
                                                                    (S (S (S
                                                                    (S (S (S
                                                                    O)))))))))))
                                                               else if 
                                                                    phis x a
                                                                    (S (S (S
                                                                    (S (S (S
                                                                    O))))))
                                                                    then 
                                                                    act_on s
                                                                    a
                                                                    (fun s1 ->
                                                                    (&&)
                                                                    (Z.eqb v
                                                                    (cword s1
                                                                    a))
                                                                    (negb
                                                                    ((&&)
                                                                    (cancel_due
                                                                    s1 a)
                                                                    (negb
                                                                    (unwinding
                                                                    (s1.unwm
                                                                    a))))))
                                                                    none_acts
                                                                    (fun _ _ ->
                                                                    Some
                                                                    (set_ph x
                                                                    a (S (S
                                                                    (S (S (S
                                                                    (S (S (S
                                                                    (S
                                                                    O)))))))))))
                                                                    else 
                                                                    if 
                                                                    phis x a
                                                                    (S (S (S
                                                                    (S (S (S
                                                                    (S
                                                                    O)))))))
                                                                    then 
                                                                    act_on s
                                                                    a
                                                                    (fun s1 ->
                                                                    Z.eqb v
                                                                    (cword s1
                                                                    a))
                                                                    none_acts
                                                                    (fun _ _ ->
                                                                    Some
                                                                    (set_ph x
                                                                    a (S (S
                                                                    (S (S (S
                                                                    (S (S (S
                                                                    (S
                                                                    O)))))))))))
                                                                    else 
                                                                    if 
                                                                    phis x a
                                                                    (S (S (S
                                                                    (S (S (S
                                                                    (S (S (S
                                                                    (S (S (S
                                                                    (S
                                                                    O)))))))))))))
                                                                    then 
                                                                    act_on s
                                                                    a
                                                                    (fun s1 ->
                                                                    Z.eqb v
                                                                    (cword s1
                                                                    a))
                                                                    none_acts
                                                                    (fun _ _ ->
                                                                    Some
                                                                    (set_ph x
                                                                    a O))
                                                                    else 
                                                                    if 
                                                                    (&&)
                                                                    (phis x a
                                                                    O)
                                                                    (at_pc s
                                                                    a PBody)
                                                                    then 
                                                                    act_on s
                                                                    a
                                                                    (fun s1 ->
                                                                    Z.eqb v
                                                                    (cword s1
                                                                    a))
                                                                    (fun s1 ->
                                                                    if 
                                                                    (&&)
                                                                    (Z.eqb v
                                                                    (Zpos XH))
                                                                    (negb
                                                                    (unwinding
                                                                    (s1.unwm
                                                                    a)))
                                                                    then 
                                                                    (CPoint
                                                                    a) :: []
                                                                    else [])
                                                                    (keep x)
                                                                    else None
                                                   | _ -> None)
                                                | XH ->
                                                  act_on s a (fun s1 ->
                                                    (&&) (at_pc s1 a PT1)
                                                      (eqb (s1.ipktm (c1 s1))
                                                        (zb v))) (one a)
                                                    (keep x))
                                             | XO p7 ->
                                               (match p7 with
                                                | XI p8 ->
                                                  (match p8 with
                                                   | XH ->
                                                     if phis x a O
                                                     then act_on s a
                                                            (fun s1 ->
                                                            (&&)
                                                              ((&&)
                                                                (at_pc s1 a
                                                                  PPark)
                                                                (is_co
                                                                  (s1.kindm a)))
                                                              (eqb
                                                                (s1.tokm
                                                                  (s1.jbm a))
                                                                (zb v)))
                                                            (fun _ ->
                                                            if zb v
                                                            then (Step
                                                                   a) :: []
                                                            else [])
                                                            (fun s1 _ ->
                                                            match bind_obj
                                                                    x.opk
                                                                    (s1.jbm a)
                                                                    o with
                                                            | Some m ->
                                                              Some
                                                                (set_ph
                                                                  (set_opk x
                                                                    m) a
                                                                  (if zb v
                                                                   then 
                                                                    S (S (S
                                                                    O))
                                                                   else 
                                                                    S (S (S
                                                                    (S (S
                                                                    O))))))
                                                            | None -> None)
                                                     else if phis x a (S (S
                                                               (S (S (S (S (S
                                                               (S (S
                                                               O)))))))))
                                                          then Some { acts =
                                                                 []; nxt =
                                                                 (set_ph x a
                                                                   (if zb v
                                                                    then 
                                                                    S (S (S
                                                                    (S (S (S
                                                                    (S (S (S
                                                                    (S
                                                                    O)))))))))
                                                                    else 
                                                                    S (S (S
                                                                    (S (S (S
                                                                    (S (S (S
                                                                    (S (S
                                                                    O)))))))))))) }
                                                          else None
                                                   | _ -> None)
                                                | _ -> None)
                                             | XH ->
                                               act_on s a (fun s1 ->
                                                 at_pc s1 a PBody) (fun _ ->
                                                 (Finish (a,
                                                 (Z.to_nat v))) :: [])
                                                 (keep x))
                                          | XH ->
                                            act_on s a (fun s1 ->
                                              at_pc s1 a PDrop) (one a)
                                              (keep x))
                                       | XO p5 ->
                                         (match p5 with
                                          | XI p6 ->
                                            (match p6 with
                                             | XI p7 ->
                                               (match p7 with
                                                | XH ->
                                                  act_on s a (fun s1 ->
                                                    (&&) (at_pc s1 a PF1)
                                                      (is_upanic (s1.unwm a)))
                                                    none_acts (keep x)
                                                | _ -> None)
                                             | XO p7 ->
                                               (match p7 with
                                                | XI p8 ->
                                                  (match p8 with
                                                   | XH ->
                                                     if phis x a (S (S (S (S
                                                          (S O)))))
                                                     then act_on s a
                                                            (fun s1 ->
                                                            (&&)
                                                              ((&&)
                                                                (at_pc s1 a
                                                                  PPark)
                                                                (eqb
                                                                  (s1.tokm
                                                                    (s1.jbm a))
                                                                  (zb v)))
                                                              (Z.eqb
                                                                (x.opk
                                                                  (s1.jbm a))
                                                                o)) (fun _ ->
                                                            if zb v
                                                            then (Step
                                                                   a) :: []
                                                            else [])
                                                            (fun _ _ -> Some
                                                            (set_ph x a
                                                              (if zb v
                                                               then O
                                                               else S (S O))))
                                                     else if phis x a (S (S
                                                               (S (S (S (S (S
                                                               (S (S (S (S
                                                               O)))))))))))
                                                          then Some { acts =
                                                                 []; nxt =
                                                                 (set_ph x a
                                                                   O) }
                                                          else None
                                                   | _ -> None)
                                                | XO _ -> None
                                                | XH ->
                                                  act_on s a (fun s1 ->
                                                    (&&) (at_pc s1 a PW0)
                                                      (eqb (s1.jstm (c1 s1))
                                                        (zb v))) (one a)
                                                    (fun s1 _ ->
                                                    match bind_obj x.ojs
                                                            (c1 s1) o with
                                                    | Some m ->
                                                      Some (set_ojs x m)
                                                    | None -> None))
                                             | XH ->
                                               act_on s a (fun s1 ->
                                                 (&&)
                                                   ((&&) (at_pc s1 a PPark)
                                                     (negb
                                                       (is_co (s1.kindm a))))
                                                   (phis x a O)) (one a)
                                                 (fun s1 s3 ->
                                                 match bind_obj x.opk
                                                         (s1.jbm a) o with
                                                 | Some m ->
                                                   Some
                                                     (set_ph (set_opk x m) a
                                                       (if at_pc s3 a PWW
                                                        then S O
                                                        else S (S (S (S (S (S
                                                               (S (S (S (S (S
                                                               (S O)))))))))))))
                                                 | None -> None))
                                          | XO p6 ->
                                            (match p6 with
                                             | XI p7 ->
                                               (match p7 with
                                                | XI _ -> None
                                                | XO p8 ->
                                                  (match p8 with
                                                   | XH ->
                                                     if (&&)
                                                          (Nat.eqb (x.nest a)
                                                            O)
                                                          ((||)
                                                            (at_pc s a PJ0)
                                                            (at_pc s a PDrop))
                                                     then act_on s a
                                                            (fun s1 ->
                                                            (&&)
                                                              ((&&)
                                                                (at_pc s1 a
                                                                  PJ0)
                                                                (is_co
                                                                  (s1.kindm a)))
                                                              (Z.eqb v
                                                                (cword s1 a)))
                                                            (one a) (keep x)
                                                     else if Z.eqb v
                                                               (cwn s
                                                                 (x.nest a) a)
                                                          then Some { acts =
                                                                 []; nxt =
                                                                 (set_nest x
                                                                   a (S
                                                                   (x.nest a))) }
                                                          else None
                                                   | _ -> None)
                                                | XH ->
                                                  act_on s a (fun s1 ->
                                                    (&&)
                                                      ((||) (at_pc s1 a PF1)
                                                        (at_pc s1 a PF2))
                                                      (negb (zb v)))
                                                    (fun s1 ->
                                                    if at_pc s1 a PF1
                                                    then (Step a) :: ((Step
                                                           a) :: [])
                                                    else (Step a) :: [])
                                                    (fun _ _ ->
                                                    match bind_obj x.ojs a o with
                                                    | Some m ->
                                                      Some (set_ojs x m)
                                                    | None -> None))
                                             | XO _ -> None
                                             | XH ->
                                               (match x.pmap (Z.to_nat o) with
                                                | O -> None
                                                | S c ->
                                                  act_on s a (fun s1 ->
                                                    at_pc s1 a PBody)
                                                    (fun _ -> (Join (a,
                                                    c)) :: []) (keep x)))
                                          | XH ->
                                            act_on s a (fun s1 ->
                                              at_pc s1 a PBody) (fun _ ->
                                              (Open a) :: []) (keep x))
                                       | XH ->
                                         let n = s.nexta in
                                         act_on s a (fun s1 ->
                                           at_pc s1 a PBody) (fun _ -> (Spawn
                                           (a, (Z.to_nat v))) :: [])
                                           (fun _ _ -> Some
                                           (set_pmap x
                                             (upd x.pmap (Z.to_nat o) (S n)))))
                                    | XH -> None)
                                 | _ -> None)
                              | None -> skip x))
                        | _ ->
                          (match task x ta with
                           | Some a ->
                             let c1 = fun s1 -> s1.jcm a in
                             (match code with
                              | Zpos p2 ->
                                (match p2 with
                                 | XI p3 ->
                                   (match p3 with
                                    | XI p4 ->
                                      (match p4 with
                                       | XI p5 ->
                                         (match p5 with
                                          | XI p6 ->
                                            (match p6 with
                                             | XH ->
                                               act_on s a (fun s1 ->
                                                 (&&) (at_pc s1 a PRet) (zb v))
                                                 (one a) (keep x)
                                             | _ -> None)
                                          | XO p6 ->
                                            (match p6 with
                                             | XH ->
                                               act_on s a (fun s1 ->
                                                 (&&)
                                                   ((&&) (at_pc s1 a PW3)
                                                     (eqb
                                                       (is_some
                                                         (s1.jwakem (c1 s1)))
                                                       (zb v)))
                                                   (Z.eqb (x.ojw (c1 s1)) o))
                                                 (one a) (keep x)
                                             | _ -> None)
                                          | XH -> None)
                                       | XO p5 ->
                                         (match p5 with
                                          | XI p6 ->
                                            (match p6 with
                                             | XI _ -> None
                                             | XO p7 ->
                                               (match p7 with
                                                | XH ->
                                                  if negb
                                                       (Nat.eqb (x.nest a) O)
                                                  then if Z.eqb v
                                                            (cwn s (x.nest a)
                                                              a)
                                                       then skip x
                                                       else None
                                                  else if phis x a (S (S O))
                                                       then act_on s a
                                                              (fun s1 ->
                                                              (&&)
                                                                (at_pc s1 a
                                                                  PPark)
                                                                (Z.eqb v
                                                                  (cword s1 a)))
                                                              (one a)
                                                              (fun s1 s3 ->
                                                              Some
                                                              (set_ph x a
                                                                (if s1.tokm
                                                                    (s1.jbm a)
                                                                 then 
                                                                   S (S (S (S
                                                                    (S (S
                                                                    O)))))
                                                                 else 
                                                                   if 
                                                                    at_pc s3
                                                                    a PWW
                                                                   then 
                                                                    S (S (S
                                                                    (S (S (S
                                                                    (S (S
                                                                    O)))))))
                                                                   else 
                                                                    if 
                                                                    raised s1
                                                                    s3 a
                                                                    then 
                                                                    S (S (S
                                                                    (S (S (S
                                                                    (S (S (S
                                                                    (S (S (S
                                                                    (S
                                                                    O))))))))))))
                                                                    else 
                                                                    S (S (S
                                                                    (S (S (S
                                                                    (S O)))))))))
                                                       else act_on s a
                                                              (fun s1 ->
                                                              Z.eqb v
                                                                (cword s1 a))
                                                              none_acts
                                                              (keep x)
                                                | _ -> None)
                                             | XH ->
                                               act_on s a (fun s1 ->
                                                 (&&) (at_pc s1 a PT2)
                                                   (eqb
                                                     (is_some
                                                       (s1.panm (c1 s1)))
                                                     (zb v))) (one a) 
                                                 (keep x))
                                          | XO p6 ->
                                            (match p6 with
                                             | XI p7 ->
                                               (match p7 with
                                                | XH ->
                                                  if (||)
                                                       (phis x a (S (S (S
                                                         O))))
                                                       (phis x a (S (S (S (S
                                                         (S (S (S (S (S (S
                                                         O)))))))))))
                                                  then Some { acts = [];
                                                         nxt =
                                                         (set_ph x a O) }
                                                  else None
                                                | _ -> None)
                                             | _ -> None)
                                          | XH -> None)
                                       | XH ->
                                         act_on s a (fun s1 ->
                                           at_pc s1 a PBody) (fun _ -> (Panic
                                           (a, (Z.to_nat o))) :: []) 
                                           (keep x))
                                    | XO p4 ->
                                      (match p4 with
                                       | XI p5 ->
                                         (match p5 with
                                          | XI _ -> None
                                          | XO p6 ->
                                            (match p6 with
                                             | XI p7 ->
                                               (match p7 with
                                                | XH ->
                                                  act_on s a (fun s1 ->
                                                    (&&) (at_pc s1 a PF4)
                                                      (is_co
                                                        (s1.kindm
                                                          (s1.bownerm
                                                            (s1.awm a)))))
                                                    (one a) (fun s1 _ ->
                                                    match bind_obj x.opk
                                                            (s1.awm a) o with
                                                    | Some m ->
                                                      Some (set_opk x m)
                                                    | None -> None)
                                                | _ -> None)
                                             | XO _ -> None
                                             | XH ->
                                               act_on s a (fun s1 ->
                                                 at_pc s1 a PW1) (one a)
                                                 (fun s1 _ ->
                                                 match bind_obj x.ojw 
                                                         (c1 s1) o with
                                                 | Some m ->
                                                   Some (set_ojw x m)
                                                 | None -> None))
                                          | XH ->
                                            if phis x a (S O)
                                            then act_on s a (fun s1 ->
                                                   (&&)
                                                     ((&&) (at_pc s1 a PWW)
                                                       (zb v))
                                                     (Z.eqb
                                                       (x.opk (s1.jbm a)) o))
                                                   (one a) (fun _ _ -> Some
                                                   (set_ph x a O))
                                            else if phis x a (S (S (S (S (S
                                                      (S (S (S (S (S (S (S
                                                      O))))))))))))
                                                 then act_on s a (fun _ ->
                                                        zb v) none_acts
                                                        (fun _ _ -> Some
                                                        (set_ph x a O))
                                                 else None)
                                       | XO p5 ->
                                         (match p5 with
                                          | XI p6 ->
                                            (match p6 with
                                             | XI _ -> None
                                             | XO p7 ->
                                               (match p7 with
                                                | XH ->
                                                  (match x.nest a with
                                                   | O ->
                                                     act_on s a (fun s1 ->
                                                       (&&) (at_pc s1 a PEn)
                                                         (Z.eqb v
                                                           (cword s1 a)))
                                                       (one a) (keep x)
                                                   | S n ->
                                                     if Z.eqb v
                                                          (cwn s (S n) a)
                                                     then Some { acts = [];
                                                            nxt =
                                                            (set_nest x a n) }
                                                     else None)
                                                | _ -> None)
                                             | XH ->
                                               act_on s a (fun s1 ->
                                                 (&&) (at_pc s1 a PF3)
                                                   (eqb
                                                     (is_some (s1.jwakem a))
                                                     (zb v))) (one a)
                                                 (fun _ _ ->
                                                 match bind_obj x.ojw a o with
                                                 | Some m ->
                                                   Some (set_ojw x m)
                                                 | None -> None))
                                          | XO _ -> None
                                          | XH ->
                                            (match x.pmap (Z.to_nat o) with
                                             | O -> None
                                             | S c ->
                                               act_on s a (fun s1 ->
                                                 (&&)
                                                   ((&&) (at_pc s1 a PBody)
                                                     (Nat.eqb (s1.gotm c) (S
                                                       O)))
                                                   (Z.eqb
                                                     (Z.of_nat (s1.cvalm c))
                                                     v)) none_acts (keep x)))
                                       | XH ->
                                         act_on s a (fun s1 ->
                                           at_pc s1 a PBody) (fun _ -> (Close
                                           a) :: []) (keep x))
                                    | XH -> None)
                                 | XO p3 ->
                                   (match p3 with
                                    | XI p4 ->
                                      (match p4 with
                                       | XI p5 ->
                                         (match p5 with
                                          | XI p6 ->
                                            (match p6 with
                                             | XH ->
                                               act_on s a (fun s1 ->
                                                 (&&) (at_pc s1 a PF1)
                                                   (negb
                                                     (unwinding (s1.unwm a))))
                                                 none_acts (keep x)
                                             | _ -> None)
                                          | XO p6 ->
                                            (match p6 with
                                             | XH ->
                                               act_on s a (fun s1 ->
                                                 (&&)
                                                   ((&&) (at_pc s1 a PW2)
                                                     (eqb (s1.jstm (c1 s1))
                                                       (zb v)))
                                                   (Z.eqb (x.ojs (c1 s1)) o))
                                                 (one a) (keep x)
                                             | _ -> None)
                                          | XH ->
                                            act_on s a (fun s1 ->
                                              (&&) (at_pc s1 a PF4)
                                                (negb
                                                  (is_co
                                                    (s1.kindm
                                                      (s1.bownerm (s1.awm a))))))
                                              (one a) (fun s1 _ ->
                                              match bind_obj x.opk (s1.awm a)
                                                      o with
                                              | Some m -> Some (set_opk x m)
                                              | None -> None))
                                       | XO p5 ->
                                         (match p5 with
                                          | XI p6 ->
                                            (match p6 with
                                             | XI _ -> None
                                             | XO p7 ->
                                               (match p7 with
                                                | XH ->
                                                  if negb
                                                       (Nat.eqb (x.nest a) O)
                                                  then if Z.eqb v
                                                            (cwn s (x.nest a)
                                                              a)
                                                       then skip x
                                                       else None
                                                  else if at_pc s a PCk
                                                       then act_on s a
                                                              (fun s1 ->
                                                              Z.eqb v
                                                                (cword s1 a))
                                                              (one a) 
                                                              (keep x)
                                                       else if phis x a (S (S
                                                                 (S (S (S (S
                                                                 (S (S
                                                                 O))))))))
                                                            then act_on s a
                                                                   (fun s1 ->
                                                                   (&&)
                                                                    (at_pc s1
                                                                    a PWW)
                                                                    (Z.eqb v
                                                                    (cword s1
                                                                    a)))
                                                                   (one a)
                                                                   (fun s1 s3 ->
                                                                   Some
                                                                   (set_ph x
                                                                    a
                                                                    (if 
                                                                    raised s1
                                                                    s3 a
                                                                    then O
                                                                    else 
                                                                    S (S (S
                                                                    (S (S (S
                                                                    (S (S (S
                                                                    O)))))))))))
                                                            else if phis x a
                                                                    (S (S (S
                                                                    (S (S (S
                                                                    O))))))
                                                                 then 
                                                                   act_on s a
                                                                    (fun s1 ->
                                                                    (&&)
                                                                    (Z.eqb v
                                                                    (cword s1
                                                                    a))
                                                                    (negb
                                                                    ((&&)
                                                                    (cancel_due
                                                                    s1 a)
                                                                    (negb
                                                                    (unwinding
                                                                    (s1.unwm
                                                                    a))))))
                                                                    none_acts
                                                                    (fun _ _ ->
                                                                    Some
                                                                    (set_ph x
                                                                    a (S (S
                                                                    (S (S (S
                                                                    (S (S (S
                                                                    (S
                                                                    O)))))))))))
                                                                 else 
                                                                   if 
                                                                    phis x a
                                                                    (S (S (S
                                                                    (S (S (S
                                                                    (S
                                                                    O)))))))
                                                                   then 
                                                                    act_on s
                                                                    a
                                                                    (fun s1 ->
                                                                    Z.eqb v
                                                                    (cword s1
                                                                    a))
                                                                    none_acts
                                                                    (fun _ _ ->
                                                                    Some
                                                                    (set_ph x
                                                                    a (S (S
                                                                    (S (S (S
                                                                    (S (S (S
                                                                    (S
                                                                    O)))))))))))
                                                                   else 
                                                                    if 
                                                                    phis x a
                                                                    (S (S (S
                                                                    (S (S (S
                                                                    (S (S (S
                                                                    (S (S (S
                                                                    (S
                                                                    O)))))))))))))
                                                                    then 
                                                                    act_on s
                                                                    a
                                                                    (fun s1 ->
                                                                    Z.eqb v
                                                                    (cword s1
                                                                    a))
                                                                    none_acts
                                                                    (fun _ _ ->
                                                                    Some
                                                                    (set_ph x
                                                                    a O))
                                                                    else 
                                                                    if 
                                                                    (&&)
                                                                    (phis x a
                                                                    O)
                                                                    (at_pc s
                                                                    a PBody)
                                                                    then 
                                                                    act_on s
                                                                    a
                                                                    (fun s1 ->
                                                                    Z.eqb v
                                                                    (cword s1
                                                                    a))
                                                                    (fun s1 ->
                                                                    if 
                                                                    (&&)
                                                                    (Z.eqb v
                                                                    (Zpos XH))
                                                                    (negb
                                                                    (unwinding
                                                                    (s1.unwm
                                                                    a)))
                                                                    then 
                                                                    (CPoint
                                                                    a) :: []
                                                                    else [])
                                                                    (keep x)
                                                                    else None
                                                | _ -> None)
                                             | XH ->
                                               act_on s a (fun s1 ->
                                                 (&&) (at_pc s1 a PT1)
                                                   (eqb (s1.ipktm (c1 s1))
                                                     (zb v))) (one a) 
                                                 (keep x))
                                          | XO p6 ->
                                            (match p6 with
                                             | XI p7 ->
                                               (match p7 with
                                                | XH ->
                                                  if phis x a O
                                                  then act_on s a (fun s1 ->
                                                         (&&)
                                                           ((&&)
                                                             (at_pc s1 a
                                                               PPark)
                                                             (is_co
                                                               (s1.kindm a)))
                                                           (eqb
                                                             (s1.tokm
                                                               (s1.jbm a))
                                                             (zb v)))
                                                         (fun _ ->
                                                         if zb v
                                                         then (Step a) :: []
                                                         else [])
                                                         (fun s1 _ ->
                                                         match bind_obj x.opk
                                                                 (s1.jbm a) o with
                                                         | Some m ->
                                                           Some
                                                             (set_ph
                                                               (set_opk x m)
                                                               a
                                                               (if zb v
                                                                then 
                                                                  S (S (S O))
                                                                else 
                                                                  S (S (S (S
                                                                    (S O))))))
                                                         | None -> None)
                                                  else if phis x a (S (S (S
                                                            (S (S (S (S (S (S
                                                            O)))))))))
                                                       then Some { acts = [];
                                                              nxt =
                                                              (set_ph x a
                                                                (if zb v
                                                                 then 
                                                                   S (S (S (S
                                                                    (S (S (S
                                                                    (S (S (S
                                                                    O)))))))))
                                                                 else 
                                                                   S (S (S (S
                                                                    (S (S (S
                                                                    (S (S (S
                                                                    (S
                                                                    O)))))))))))) }
                                                       else None
                                                | _ -> None)
                                             | _ -> None)
                                          | XH ->
                                            act_on s a (fun s1 ->
                                              at_pc s1 a PBody) (fun _ ->
                                              (Finish (a,
                                              (Z.to_nat v))) :: []) (keep x))
                                       | XH ->
                                         act_on s a (fun s1 ->
                                           at_pc s1 a PDrop) (one a) 
                                           (keep x))
                                    | XO p4 ->
                                      (match p4 with
                                       | XI p5 ->
                                         (match p5 with
                                          | XI p6 ->
                                            (match p6 with
                                             | XH ->
                                               act_on s a (fun s1 ->
                                                 (&&) (at_pc s1 a PF1)
                                                   (is_upanic (s1.unwm a)))
                                                 none_acts (keep x)
                                             | _ -> None)
                                          | XO p6 ->
                                            (match p6 with
                                             | XI p7 ->
                                               (match p7 with
                                                | XH ->
                                                  if phis x a (S (S (S (S (S
                                                       O)))))
                                                  then act_on s a (fun s1 ->
                                                         (&&)
                                                           ((&&)
                                                             (at_pc s1 a
                                                               PPark)
                                                             (eqb
                                                               (s1.tokm
                                                                 (s1.jbm a))
                                                               (zb v)))
                                                           (Z.eqb
                                                             (x.opk
                                                               (s1.jbm a)) o))
                                                         (fun _ ->
                                                         if zb v
                                                         then (Step a) :: []
                                                         else []) (fun _ _ ->
                                                         Some
                                                         (set_ph x a
                                                           (if zb v
                                                            then O
                                                            else S (S O))))
                                                  else if phis x a (S (S (S
                                                            (S (S (S (S (S (S
                                                            (S (S O)))))))))))
                                                       then Some { acts = [];
                                                              nxt =
                                                              (set_ph x a O) }
                                                       else None
                                                | _ -> None)
                                             | XO _ -> None
                                             | XH ->
                                               act_on s a (fun s1 ->
                                                 (&&) (at_pc s1 a PW0)
                                                   (eqb (s1.jstm (c1 s1))
                                                     (zb v))) (one a)
                                                 (fun s1 _ ->
                                                 match bind_obj x.ojs 
                                                         (c1 s1) o with
                                                 | Some m ->
                                                   Some (set_ojs x m)
                                                 | None -> None))
                                          | XH ->
                                            act_on s a (fun s1 ->
                                              (&&)
                                                ((&&) (at_pc s1 a PPark)
                                                  (negb (is_co (s1.kindm a))))
                                                (phis x a O)) (one a)
                                              (fun s1 s3 ->
                                              match bind_obj x.opk (s1.jbm a)
                                                      o with
                                              | Some m ->
                                                Some
                                                  (set_ph (set_opk x m) a
                                                    (if at_pc s3 a PWW
                                                     then S O
                                                     else S (S (S (S (S (S (S
                                                            (S (S (S (S (S
                                                            O)))))))))))))
                                              | None -> None))
                                       | XO p5 ->
                                         (match p5 with
                                          | XI p6 ->
                                            (match p6 with
                                             | XI _ -> None
                                             | XO p7 ->
                                               (match p7 with
                                                | XH ->
                                                  if (&&)
                                                       (Nat.eqb (x.nest a) O)
                                                       ((||) (at_pc s a PJ0)
                                                         (at_pc s a PDrop))
                                                  then act_on s a (fun s1 ->
                                                         (&&)
                                                           ((&&)
                                                             (at_pc s1 a PJ0)
                                                             (is_co
                                                               (s1.kindm a)))
                                                           (Z.eqb v
                                                             (cword s1 a)))
                                                         (one a) (keep x)
                                                  else if Z.eqb v
                                                            (cwn s (x.nest a)
                                                              a)
                                                       then Some { acts = [];
                                                              nxt =
                                                              (set_nest x a
                                                                (S
                                                                (x.nest a))) }
                                                       else None
                                                | _ -> None)
                                             | XH ->
                                               act_on s a (fun s1 ->
                                                 (&&)
                                                   ((||) (at_pc s1 a PF1)
                                                     (at_pc s1 a PF2))
                                                   (negb (zb v))) (fun s1 ->
                                                 if at_pc s1 a PF1
                                                 then (Step a) :: ((Step
                                                        a) :: [])
                                                 else (Step a) :: [])
                                                 (fun _ _ ->
                                                 match bind_obj x.ojs a o with
                                                 | Some m ->
                                                   Some (set_ojs x m)
                                                 | None -> None))
                                          | XO _ -> None
                                          | XH ->
                                            (match x.pmap (Z.to_nat o) with
                                             | O -> None
                                             | S c ->
                                               act_on s a (fun s1 ->
                                                 at_pc s1 a PBody) (fun _ ->
                                                 (Join (a, c)) :: []) 
                                                 (keep x)))
                                       | XH ->
                                         act_on s a (fun s1 ->
                                           at_pc s1 a PBody) (fun _ -> (Open
                                           a) :: []) (keep x))
                                    | XH ->
                                      let n = s.nexta in
                                      act_on s a (fun s1 -> at_pc s1 a PBody)
                                        (fun _ -> (Spawn (a,
                                        (Z.to_nat v))) :: []) (fun _ _ ->
                                        Some
                                        (set_pmap x
                                          (upd x.pmap (Z.to_nat o) (S n)))))
                                 | XH -> None)
                              | _ -> None)
                           | None -> skip x))
                     | XO p1 ->
                       (match p1 with
                        | XI p2 ->
                          (match p2 with
                           | XI p3 ->
                             (match p3 with
                              | XO p4 ->
                                (match p4 with
                                 | XH ->
                                   (match tgt x ta with
                                    | Some t ->
                                      if Z.eqb v (cwn s (x.nest t) t)
                                      then Some { acts = ((Cancel t) :: []);
                                             nxt = x }
                                      else None
                                    | None -> None)
                                 | _ ->
                                   (match task x ta with
                                    | Some a ->
                                      let c1 = fun s1 -> s1.jcm a in
                                      (match code with
                                       | Zpos p5 ->
                                         (match p5 with
                                          | XI p6 ->
                                            (match p6 with
                                             | XI p7 ->
                                               (match p7 with
                                                | XI p8 ->
                                                  (match p8 with
                                                   | XI p9 ->
                                                     (match p9 with
                                                      | XH ->
                                                        act_on s a (fun s1 ->
                                                          (&&)
                                                            (at_pc s1 a PRet)
                                                            (zb v)) (one a)
                                                          (keep x)
                                                      | _ -> None)
                                                   | XO p9 ->
                                                     (match p9 with
                                                      | XH ->
                                                        act_on s a (fun s1 ->
                                                          (&&)
                                                            ((&&)
                                                              (at_pc s1 a PW3)
                                                              (eqb
                                                                (is_some
                                                                  (s1.jwakem
                                                                    (c1 s1)))
                                                                (zb v)))
                                                            (Z.eqb
                                                              (x.ojw (c1 s1))
                                                              o)) (one a)
                                                          (keep x)
                                                      | _ -> None)
                                                   | XH -> None)
                                                | XO p8 ->
                                                  (match p8 with
                                                   | XI p9 ->
                                                     (match p9 with
                                                      | XI _ -> None
                                                      | XO p10 ->
                                                        (match p10 with
                                                         | XH ->
                                                           if negb
                                                                (Nat.eqb
                                                                  (x.nest a)
                                                                  O)
                                                           then if Z.eqb v
                                                                    (cwn s
                                                                    (x.nest a)
                                                                    a)
                                                                then skip x
                                                                else None
                                                           else if phis x a
                                                                    (S (S O))
                                                                then 
                                                                  act_on s a
                                                                    (fun s1 ->
                                                                    (&&)
                                                                    (at_pc s1
                                                                    a PPark)
                                                                    (Z.eqb v
                                                                    (cword s1
                                                                    a)))
                                                                    (one a)
                                                                    (fun s1 s3 ->
                                                                    Some
                                                                    (set_ph x
                                                                    a
                                                                    (if 
                                                                    s1.tokm
                                                                    (s1.jbm a)
                                                                    then 
                                                                    S (S (S
                                                                    (S (S (S
                                                                    O)))))
                                                                    else 
                                                                    if 
                                                                    at_pc s3
                                                                    a PWW
                                                                    then 
                                                                    S (S (S
                                                                    (S (S (S
                                                                    (S (S
                                                                    O)))))))
                                                                    else 
                                                                    if 
                                                                    raised s1
                                                                    s3 a
                                                                    then 
                                                                    S (S (S
                                                                    (S (S (S
                                                                    (S (S (S
                                                                    (S (S (S
                                                                    (S
                                                                    O))))))))))))
                                                                    else 
                                                                    S (S (S
                                                                    (S (S (S
                                                                    (S O)))))))))
                                                                else 
                                                                  act_on s a
                                                                    (fun s1 ->
                                                                    Z.eqb v
                                                                    (cword s1
                                                                    a))
                                                                    none_acts
                                                                    (keep x)
                                                         | _ -> None)
                                                      | XH ->
                                                        act_on s a (fun s1 ->
                                                          (&&)
                                                            (at_pc s1 a PT2)
                                                            (eqb
                                                              (is_some
                                                                (s1.panm
                                                                  (c1 s1)))
                                                              (zb v)))
                                                          (one a) (keep x))
                                                   | XO p9 ->
                                                     (match p9 with
                                                      | XI p10 ->
                                                        (match p10 with
                                                         | XH ->
                                                           if (||)
                                                                (phis x a (S
                                                                  (S (S O))))
                                                                (phis x a (S
                                                                  (S (S (S (S
                                                                  (S (S (S (S
                                                                  (S
                                                                  O)))))))))))
                                                           then Some { acts =
                                                                  []; nxt =
                                                                  (set_ph x a
                                                                    O) }
                                                           else None
                                                         | _ -> None)
                                                      | _ -> None)
                                                   | XH -> None)
                                                | XH ->
                                                  act_on s a (fun s1 ->
                                                    at_pc s1 a PBody)
                                                    (fun _ -> (Panic (a,
                                                    (Z.to_nat o))) :: [])
                                                    (keep x))
                                             | XO p7 ->
                                               (match p7 with
                                                | XI p8 ->
                                                  (match p8 with
                                                   | XI _ -> None
                                                   | XO p9 ->
                                                     (match p9 with
                                                      | XI p10 ->
                                                        (match p10 with
                                                         | XH ->
                                                           act_on s a
                                                             (fun s1 ->
                                                             (&&)
                                                               (at_pc s1 a
                                                                 PF4)
                                                               (is_co
                                                                 (s1.kindm
                                                                   (s1.bownerm
                                                                    (s1.awm a)))))
                                                             (one a)
                                                             (fun s1 _ ->
                                                             match bind_obj
                                                                    x.opk
                                                                    (s1.awm a)
                                                                    o with
                                                             | Some m ->
                                                               Some
                                                                 (set_opk x m)
                                                             | None -> None)
                                                         | _ -> None)
                                                      | XO _ -> None
                                                      | XH ->
                                                        act_on s a (fun s1 ->
                                                          at_pc s1 a PW1)
                                                          (one a)
                                                          (fun s1 _ ->
                                                          match bind_obj
                                                                  x.ojw
                                                                  (c1 s1) o with
                                                          | Some m ->
                                                            Some (set_ojw x m)
                                                          | None -> None))
                                                   | XH ->
                                                     if phis x a (S O)
                                                     then act_on s a
                                                            (fun s1 ->
                                                            (&&)
                                                              ((&&)
                                                                (at_pc s1 a
                                                                  PWW) 
                                                                (zb v))
                                                              (Z.eqb
                                                                (x.opk
                                                                  (s1.jbm a))
                                                                o)) (one a)
                                                            (fun _ _ -> Some
                                                            (set_ph x a O))
                                                     else if phis x a (S (S
                                                               (S (S (S (S (S
                                                               (S (S (S (S (S
                                                               O))))))))))))
                                                          then act_on s a
                                                                 (fun _ ->
                                                                 zb v)
                                                                 none_acts
                                                                 (fun _ _ ->
                                                                 Some
                                                                 (set_ph x a
                                                                   O))
                                                          else None)
                                                | XO p8 ->
                                                  (match p8 with
                                                   | XI p9 ->
                                                     (match p9 with
                                                      | XI _ -> None
                                                      | XO p10 ->
                                                        (match p10 with
                                                         | XH ->
                                                           (match x.nest a with
                                                            | O ->
                                                              act_on s a
                                                                (fun s1 ->
                                                                (&&)
                                                                  (at_pc s1 a
                                                                    PEn)
                                                                  (Z.eqb v
                                                                    (cword s1
                                                                    a)))
                                                                (one a)
                                                                (keep x)
                                                            | S n ->
                                                              if Z.eqb v
                                                                   (cwn s (S
                                                                    n) a)
                                                              then Some
                                                                    { acts =
                                                                    []; nxt =
                                                                    (set_nest
                                                                    x a n) }
                                                              else None)
                                                         | _ -> None)
                                                      | XH ->
                                                        act_on s a (fun s1 ->
                                                          (&&)
                                                            (at_pc s1 a PF3)
                                                            (eqb
                                                              (is_some
                                                                (s1.jwakem a))
                                                              (zb v)))
                                                          (one a) (fun _ _ ->
                                                          match bind_obj
                                                                  x.ojw a o with
                                                          | Some m ->
                                                            Some (set_ojw x m)
                                                          | None -> None))
                                                   | XO _ -> None
                                                   | XH ->
                                                     (match x.pmap
                                                              (Z.to_nat o) with
                                                      | O -> None
                                                      | S c ->
                                                        act_on s a (fun s1 ->
                                                          (&&)
                                                            ((&&)
                                                              (at_pc s1 a
                                                                PBody)
                                                              (Nat.eqb
                                                                (s1.gotm c)
                                                                (S O)))
                                                            (Z.eqb
                                                              (Z.of_nat
                                                                (s1.cvalm c))
                                                              v)) none_acts
                                                          (keep x)))
                                                | XH ->
                                                  act_on s a (fun s1 ->
                                                    at_pc s1 a PBody)
                                                    (fun _ -> (Close
                                                    a) :: []) (keep x))
                                             | XH -> None)
                                          | XO p6 ->
                                            (match p6 with
                                             | XI p7 ->
                                               (match p7 with
                                                | XI p8 ->
                                                  (match p8 with
                                                   | XI p9 ->
                                                     (match p9 with
                                                      | XH ->
                                                        act_on s a (fun s1 ->
                                                          (&&)
                                                            (at_pc s1 a PF1)
                                                            (negb
                                                              (unwinding
                                                                (s1.unwm a))))
                                                          none_acts (keep x)
                                                      | _ -> None)
                                                   | XO p9 ->
                                                     (match p9 with
                                                      | XH ->
                                                        act_on s a (fun s1 ->
                                                          (&&)
                                                            ((&&)
                                                              (at_pc s1 a PW2)
                                                              (eqb
                                                                (s1.jstm
                                                                  (c1 s1))
                                                                (zb v)))
                                                            (Z.eqb
                                                              (x.ojs (c1 s1))
                                                              o)) (one a)
                                                          (keep x)
                                                      | _ -> None)
                                                   | XH ->
                                                     act_on s a (fun s1 ->
                                                       (&&) (at_pc s1 a PF4)
                                                         (negb
                                                           (is_co
                                                             (s1.kindm
                                                               (s1.bownerm
                                                                 (s1.awm a))))))
                                                       (one a) (fun s1 _ ->
                                                       match bind_obj x.opk
                                                               (s1.awm a) o with
                                                       | Some m ->
                                                         Some (set_opk x m)
                                                       | None -> None))
                                                | XO p8 ->
                                                  (match p8 with
                                                   | XI p9 ->
                                                     (match p9 with
                                                      | XI _ -> None
                                                      | XO p10 ->
                                                        (match p10 with
                                                         | XH ->
                                                           if negb
                                                                (Nat.eqb
                                                                  (x.nest a)
                                                                  O)
                                                           then if Z.eqb v
                                                                    (cwn s
                                                                    (x.nest a)
                                                                    a)
                                                                then skip x
                                                                else None
                                                           else if at_pc s a
                                                                    PCk
                                                                then 
                                                                  act_on s a
                                                                    (fun s1 ->
                                                                    Z.eqb v
                                                                    (cword s1
                                                                    a))
                                                                    (one a)
                                                                    (keep x)
                                                                else 
                                                                  if 
                                                                    phis x a
                                                                    (S (S (S
                                                                    (S (S (S
                                                                    (S (S
                                                                    O))))))))
                                                                  then 
                                                                    act_on s
                                                                    a
                                                                    (fun s1 ->
                                                                    (&&)
                                                                    (at_pc s1
                                                                    a PWW)
                                                                    (Z.eqb v
                                                                    (cword s1
                                                                    a)))
                                                                    (one a)
                                                                    (fun s1 s3 ->
                                                                    Some
                                                                    (set_ph x
                                                                    a
                                                                    (if 
                                                                    raised s1
                                                                    s3 a
                                                                    then O
                                                                    else 
                                                                    S (S (S
                                                                    (S (S (S
                                                                    (S (S (S
                                                                    O)))))))))))
                                                                  else 
                                                                    if 
                                                                    phis x a
                                                                    (S (S (S
                                                                    (S (S (S
                                                                    O))))))
                                                                    then 
                                                                    act_on s
                                                                    a
                                                                    (fun s1 ->
                                                                    (&&)
                                                                    (Z.eqb v
                                                                    (cword s1
                                                                    a))
                                                                    (negb
                                                                    ((&&)
                                                                    (cancel_due
                                                                    s1 a)
                                                                    (negb
                                                                    (unwinding
                                                                    (s1.unwm
                                                                    a))))))
                                                                    none_acts
                                                                    (fun _ _ ->
                                                                    Some
                                                                    (set_ph x
                                                                    a (S (S
                                                                    (S (S (S
                                                                    (S (S (S
                                                                    (S
                                                                    O)))))))))))
                                                                    else 
                                                                    if 
                                                                    phis x a
                                                                    (S (S (S
                                                                    (S (S (S
                                                                    (S
                                                                    O)))))))
                                                                    then 
                                                                    act_on s
                                                                    a
                                                                    (fun s1 ->
                                                                    Z.eqb v
                                                                    (cword s1
                                                                    a))
                                                                    none_acts
                                                                    (fun _ _ ->
                                                                    Some
                                                                    (set_ph x
                                                                    a (S (S
                                                                    (S (S (S
                                                                    (S (S (S
                                                                    (S
                                                                    O)))))))))))
                                                                    else 
                                                                    if 
                                                                    phis x a
                                                                    (S (S (S
                                                                    (S (S (S
                                                                    (S (S (S
                                                                    (S (S (S
                                                                    (S
                                                                    O)))))))))))))
                                                                    then 
                                                                    act_on s
                                                                    a
                                                                    (fun s1 ->
                                                                    Z.eqb v
                                                                    (cword s1
                                                                    a))
                                                                    none_acts
                                                                    (fun _ _ ->
                                                                    Some
                                                                    (set_ph x
                                                                    a O))
                                                                    else 
                                                                    if 
                                                                    (&&)
                                                                    (phis x a
                                                                    O)
                                                                    (at_pc s
                                                                    a PBody)
                                                                    then 
                                                                    act_on s
                                                                    a
                                                                    (fun s1 ->
                                                                    Z.eqb v
                                                                    (cword s1
                                                                    a))
                                                                    (fun s1 ->
                                                                    if 
                                                                    (&&)
                                                                    (Z.eqb v
                                                                    (Zpos XH))
                                                                    (negb
                                                                    (unwinding
                                                                    (s1.unwm
                                                                    a)))
                                                                    then 
                                                                    (CPoint
                                                                    a) :: []
                                                                    else [])
                                                                    (keep x)
                                                                    else None
                                                         | _ -> None)
                                                      | XH ->
                                                        act_on s a (fun s1 ->
                                                          (&&)
                                                            (at_pc s1 a PT1)
                                                            (eqb
                                                              (s1.ipktm
                                                                (c1 s1))
                                                              (zb v)))
                                                          (one a) (keep x))
                                                   | XO p9 ->
                                                     (match p9 with
                                                      | XI p10 ->
                                                        (match p10 with
                                                         | XH ->
                                                           if phis x a O
                                                           then act_on s a
                                                                  (fun s1 ->
                                                                  (&&)
                                                                    ((&&)
                                                                    (at_pc s1
                                                                    a PPark)
                                                                    (is_co
                                                                    (s1.kindm
                                                                    a)))
                                                                    (eqb
                                                                    (s1.tokm
                                                                    (s1.jbm a))
                                                                    (zb v)))
                                                                  (fun _ ->
                                                                  if zb v
                                                                  then 
                                                                    (Step
                                                                    a) :: []
                                                                  else [])
                                                                  (fun s1 _ ->
                                                                  match 
                                                                  bind_obj
                                                                    x.opk
                                                                    (s1.jbm a)
                                                                    o with
                                                                  | Some m ->
                                                                    Some
                                                                    (set_ph
                                                                    (set_opk
                                                                    x m) a
                                                                    (if zb v
                                                                    then 
                                                                    S (S (S
                                                                    O))
                                                                    else 
                                                                    S (S (S
                                                                    (S (S
                                                                    O))))))
                                                                  | None ->
                                                                    None)
                                                           else if phis x a
                                                                    (S (S (S
                                                                    (S (S (S
                                                                    (S (S (S
                                                                    O)))))))))
                                                                then 
                                                                  Some
                                                                    { acts =
                                                                    []; nxt =
                                                                    (set_ph x
                                                                    a
                                                                    (if zb v
                                                                    then 
                                                                    S (S (S
                                                                    (S (S (S
                                                                    (S (S (S
                                                                    (S
                                                                    O)))))))))
                                                                    else 
                                                                    S (S (S
                                                                    (S (S (S
                                                                    (S (S (S
                                                                    (S (S
                                                                    O)))))))))))) }
                                                                else None
                                                         | _ -> None)
                                                      | _ -> None)
                                                   | XH ->
                                                     act_on s a (fun s1 ->
                                                       at_pc s1 a PBody)
                                                       (fun _ -> (Finish (a,
                                                       (Z.to_nat v))) :: [])
                                                       (keep x))
                                                | XH ->
                                                  act_on s a (fun s1 ->
                                                    at_pc s1 a PDrop) 
                                                    (one a) (keep x))
                                             | XO p7 ->
                                               (match p7 with
                                                | XI p8 ->
                                                  (match p8 with
                                                   | XI p9 ->
                                                     (match p9 with
                                                      | XH ->
                                                        act_on s a (fun s1 ->
                                                          (&&)
                                                            (at_pc s1 a PF1)
                                                            (is_upanic
                                                              (s1.unwm a)))
                                                          none_acts (keep x)
                                                      | _ -> None)
                                                   | XO p9 ->
                                                     (match p9 with
                                                      | XI p10 ->
                                                        (match p10 with
                                                         | XH ->
                                                           if phis x a (S (S
                                                                (S (S (S
                                                                O)))))
                                                           then act_on s a
                                                                  (fun s1 ->
                                                                  (&&)
                                                                    ((&&)
                                                                    (at_pc s1
                                                                    a PPark)
                                                                    (eqb
                                                                    (s1.tokm
                                                                    (s1.jbm a))
                                                                    (zb v)))
                                                                    (Z.eqb
                                                                    (x.opk
                                                                    (s1.jbm a))
                                                                    o))
                                                                  (fun _ ->
                                                                  if zb v
                                                                  then 
                                                                    (Step
                                                                    a) :: []
                                                                  else [])
                                                                  (fun _ _ ->
                                                                  Some
                                                                  (set_ph x a
                                                                    (
                                                                    if zb v
                                                                    then O
                                                                    else 
                                                                    S (S O))))
                                                           else if phis x a
                                                                    (S (S (S
                                                                    (S (S (S
                                                                    (S (S (S
                                                                    (S (S
                                                                    O)))))))))))
                                                                then 
                                                                  Some
                                                                    { acts =
                                                                    []; nxt =
                                                                    (set_ph x
                                                                    a O) }
                                                                else None
                                                         | _ -> None)
                                                      | XO _ -> None
                                                      | XH ->
                                                        act_on s a (fun s1 ->
                                                          (&&)
                                                            (at_pc s1 a PW0)
                                                            (eqb
                                                              (s1.jstm
                                                                (c1 s1))
                                                              (zb v)))
                                                          (one a)
                                                          (fun s1 _ ->
                                                          match bind_obj
                                                                  x.ojs
                                                                  (c1 s1) o with
                                                          | Some m ->
                                                            Some (set_ojs x m)
                                                          | None -> None))
                                                   | XH ->
                                                     act_on s a (fun s1 ->
                                                       (&&)
                                                         ((&&)
                                                           (at_pc s1 a PPark)
                                                           (negb
                                                             (is_co
                                                               (s1.kindm a))))
                                                         (phis x a O))
                                                       (one a) (fun s1 s3 ->
                                                       match bind_obj x.opk
                                                               (s1.jbm a) o with
                                                       | Some m ->
                                                         Some
                                                           (set_ph
                                                             (set_opk x m) a
                                                             (if at_pc s3 a
                                                                   PWW
                                                              then S O
                                                              else S (S (S (S
                                                                    (S (S (S
                                                                    (S (S (S
                                                                    (S (S
                                                                    O)))))))))))))
                                                       | None -> None))
                                                | XO p8 ->
                                                  (match p8 with
                                                   | XI p9 ->
                                                     (match p9 with
                                                      | XI _ -> None
                                                      | XO p10 ->
                                                        (match p10 with
                                                         | XH ->
                                                           if (&&)
                                                                (Nat.eqb
                                                                  (x.nest a)
                                                                  O)
                                                                ((||)
                                                                  (at_pc s a
                                                                    PJ0)
                                                                  (at_pc s a
                                                                    PDrop))
                                                           then act_on s a
                                                                  (fun s1 ->
                                                                  (&&)
                                                                    ((&&)
                                                                    (at_pc s1
                                                                    a PJ0)
                                                                    (is_co
                                                                    (s1.kindm
                                                                    a)))
                                                                    (Z.eqb v
                                                                    (cword s1
                                                                    a)))
                                                                  (one a)
                                                                  (keep x)
                                                           else if Z.eqb v
                                                                    (cwn s
                                                                    (x.nest a)
                                                                    a)
                                                                then 
                                                                  Some
                                                                    { acts =
                                                                    []; nxt =
                                                                    (set_nest
                                                                    x a (S
                                                                    (x.nest a))) }
                                                                else None
                                                         | _ -> None)
                                                      | XH ->
                                                        act_on s a (fun s1 ->
                                                          (&&)
                                                            ((||)
                                                              (at_pc s1 a PF1)
                                                              (at_pc s1 a PF2))
                                                            (negb (zb v)))
                                                          (fun s1 ->
                                                          if at_pc s1 a PF1
                                                          then (Step
                                                                 a) :: ((Step
                                                                 a) :: [])
                                                          else (Step a) :: [])
                                                          (fun _ _ ->
                                                          match bind_obj
                                                                  x.ojs a o with
                                                          | Some m ->
                                                            Some (set_ojs x m)
                                                          | None -> None))
                                                   | XO _ -> None
                                                   | XH ->
                                                     (match x.pmap
                                                              (Z.to_nat o) with
                                                      | O -> None
                                                      | S c ->
                                                        act_on s a (fun s1 ->
                                                          at_pc s1 a PBody)
                                                          (fun _ -> (Join (a,
                                                          c)) :: []) 
                                                          (keep x)))
                                                | XH ->
                                                  act_on s a (fun s1 ->
                                                    at_pc s1 a PBody)
                                                    (fun _ -> (Open a) :: [])
                                                    (keep x))
                                             | XH ->
                                               let n = s.nexta in
                                               act_on s a (fun s1 ->
                                                 at_pc s1 a PBody) (fun _ ->
                                                 (Spawn (a,
                                                 (Z.to_nat v))) :: [])
                                                 (fun _ _ -> Some
                                                 (set_pmap x
                                                   (upd x.pmap (Z.to_nat o)
                                                     (S n)))))
                                          | XH -> None)
                                       | _ -> None)
                                    | None -> skip x))
                              | _ ->
                                (match task x ta with
                                 | Some a ->
                                   let c1 = fun s1 -> s1.jcm a in
                                   (match code with
                                    | Zpos p4 ->
                                      (match p4 with
                                       | XI p5 ->
                                         (match p5 with
                                          | XI p6 ->
                                            (match p6 with
                                             | XI p7 ->
                                               (match p7 with
                                                | XI p8 ->
                                                  (match p8 with
                                                   | XH ->
                                                     act_on s a (fun s1 ->
                                                       (&&) (at_pc s1 a PRet)
                                                         (zb v)) (one a)
                                                       (keep x)
                                                   | _ -> None)
                                                | XO p8 ->
                                                  (match p8 with
                                                   | XH ->
                                                     act_on s a (fun s1 ->
                                                       (&&)
                                                         ((&&)
                                                           (at_pc s1 a PW3)
                                                           (eqb
                                                             (is_some
                                                               (s1.jwakem
                                                                 (c1 s1)))
                                                             (zb v)))
                                                         (Z.eqb
                                                           (x.ojw (c1 s1)) o))
                                                       (one a) (keep x)
                                                   | _ -> None)
                                                | XH -> None)
                                             | XO p7 ->
                                               (match p7 with
                                                | XI p8 ->
                                                  (match p8 with
                                                   | XI _ -> None
                                                   | XO p9 ->
                                                     (match p9 with
                                                      | XH ->
                                                        if negb
                                                             (Nat.eqb
                                                               (x.nest a) O)
                                                        then if Z.eqb v
                                                                  (cwn s
                                                                    (x.nest
                                                                    a) a)
                                                             then skip x
                                                             else None
                                                        else if phis x a (S
                                                                  (S O))
                                                             then act_on s a
                                                                    (fun s1 ->
                                                                    (&&)
                                                                    (at_pc s1
                                                                    a PPark)
                                                                    (Z.eqb v
                                                                    (cword s1
                                                                    a)))
                                                                    (one a)
                                                                    (fun s1 s3 ->
                                                                    Some
                                                                    (set_ph x
                                                                    a
                                                                    (if 
                                                                    s1.tokm
                                                                    (s1.jbm
                                                                    a)
                                                                    then 
                                                                    S (S (S
                                                                    (S (S (S
                                                                    O)))))
                                                                    else 
                                                                    if 
                                                                    at_pc s3
                                                                    a PWW
                                                                    then 
                                                                    S (S (S
                                                                    (S (S (S
                                                                    (S (S
                                                                    O)))))))
                                                                    else 
                                                                    if 
                                                                    raised s1
                                                                    s3 a
                                                                    then 
                                                                    S (S (S
                                                                    (S (S (S
                                                                    (S (S (S
                                                                    (S (S (S
                                                                    (S
                                                                    O))))))))))))
                                                                    else 
                                                                    S (S (S
                                                                    (S (S (S
                                                                    (S
                                                                    O)))))))))
                                                             else act_on s a
                                                                    (fun s1 ->
                                                                    Z.eqb v
                                                                    (cword s1
                                                                    a))
                                                                    none_acts
                                                                    (keep x)
                                                      | _ -> None)
                                                   | XH ->
                                                     act_on s a (fun s1 ->
                                                       (&&) (at_pc s1 a PT2)
                                                         (eqb
                                                           (is_some
                                                             (s1.panm
                                                               (c1 s1)))
                                                           (zb v))) (one a)
                                                       (keep x))
                                                | XO p8 ->
                                                  (match p8 with
                                                   | XI p9 ->
                                                     (match p9 with
                                                      | XH ->
                                                        if (||)
                                                             (phis x a (S (S
                                                               (S O))))
                                                             (phis x a (S (S
                                                               (S (S (S (S (S
                                                               (S (S (S
                                                               O)))))))))))
                                                        then Some { acts =
                                                               []; nxt =
                                                               (set_ph x a O) }
                                                        else None
                                                      | _ -> None)
                                                   | _ -> None)
                                                | XH -> None)
                                             | XH ->
                                               act_on s a (fun s1 ->
                                                 at_pc s1 a PBody) (fun _ ->
                                                 (Panic (a,
                                                 (Z.to_nat o))) :: [])
                                                 (keep x))
                                          | XO p6 ->
                                            (match p6 with
                                             | XI p7 ->
                                               (match p7 with
                                                | XI _ -> None
                                                | XO p8 ->
                                                  (match p8 with
                                                   | XI p9 ->
                                                     (match p9 with
                                                      | XH ->
                                                        act_on s a (fun s1 ->
                                                          (&&)
                                                            (at_pc s1 a PF4)
                                                            (is_co
                                                              (s1.kindm
                                                                (s1.bownerm
                                                                  (s1.awm a)))))
                                                          (one a)
                                                          (fun s1 _ ->
                                                          match bind_obj
                                                                  x.opk
                                                                  (s1.awm a)
                                                                  o with
                                                          | Some m ->
                                                            Some
                                                              (set_opk x m)
                                                          | None -> None)
                                                      | _ -> None)
                                                   | XO _ -> None
                                                   | XH ->
                                                     act_on s a (fun s1 ->
                                                       at_pc s1 a PW1)
                                                       (one a) (fun s1 _ ->
                                                       match bind_obj x.ojw
                                                               (c1 s1) o with
                                                       | Some m ->
                                                         Some (set_ojw x m)
                                                       | None -> None))
                                                | XH ->
                                                  if phis x a (S O)
                                                  then act_on s a (fun s1 ->
                                                         (&&)
                                                           ((&&)
                                                             (at_pc s1 a PWW)
                                                             (zb v))
                                                           (Z.eqb
                                                             (x.opk
                                                               (s1.jbm a)) o))
                                                         (one a) (fun _ _ ->
                                                         Some (set_ph x a O))
                                                  else if phis x a (S (S (S
                                                            (S (S (S (S (S (S
                                                            (S (S (S
                                                            O))))))))))))
                                                       then act_on s a
                                                              (fun _ -> 
                                                              zb v) none_acts
                                                              (fun _ _ ->
                                                              Some
                                                              (set_ph x a O))
                                                       else None)
                                             | XO p7 ->
                                               (match p7 with
                                                | XI p8 ->
                                                  (match p8 with
                                                   | XI _ -> None
                                                   | XO p9 ->
                                                     (match p9 with
                                                      | XH ->
                                                        (match x.nest a with
                                                         | O ->
                                                           act_on s a
                                                             (fun s1 ->
                                                             (&&)
                                                               (at_pc s1 a
                                                                 PEn)
                                                               (Z.eqb v
                                                                 (cword s1 a)))
                                                             (one a) 
                                                             (keep x)
                                                         | S n ->
                                                           if Z.eqb v
                                                                (cwn s (S n)
                                                                  a)
                                                           then Some { acts =
                                                                  []; nxt =
                                                                  (set_nest x
                                                                    a n) }
                                                           else None)
                                                      | _ -> None)
                                                   | XH ->
                                                     act_on s a (fun s1 ->
                                                       (&&) (at_pc s1 a PF3)
                                                         (eqb
                                                           (is_some
                                                             (s1.jwakem a))
                                                           (zb v))) (one a)
                                                       (fun _ _ ->
                                                       match bind_obj x.ojw a
                                                               o with
                                                       | Some m ->
                                                         Some (set_ojw x m)
                                                       | None -> None))
                                                | XO _ -> None
                                                | XH ->
                                                  (match x.pmap (Z.to_nat o) with
                                                   | O -> None
                                                   | S c ->
                                                     act_on s a (fun s1 ->
                                                       (&&)
                                                         ((&&)
                                                           (at_pc s1 a PBody)
                                                           (Nat.eqb
                                                             (s1.gotm c) (S
                                                             O)))
                                                         (Z.eqb
                                                           (Z.of_nat
                                                             (s1.cvalm c)) v))
                                                       none_acts (keep x)))
                                             | XH ->
                                               act_on s a (fun s1 ->
                                                 at_pc s1 a PBody) (fun _ ->
                                                 (Close a) :: []) (keep x))
                                          | XH -> None)
                                       | XO p5 ->
                                         (match p5 with
                                          | XI p6 ->
                                            (match p6 with
                                             | XI p7 ->
                                               (match p7 with
                                                | XI p8 ->
                                                  (match p8 with
                                                   | XH ->
                                                     act_on s a (fun s1 ->
                                                       (&&) (at_pc s1 a PF1)
                                                         (negb
                                                           (unwinding
                                                             (s1.unwm a))))
                                                       none_acts (keep x)
                                                   | _ -> None)
                                                | XO p8 ->
                                                  (match p8 with
                                                   | XH ->
                                                     act_on s a (fun s1 ->
                                                       (&&)
                                                         ((&&)
                                                           (at_pc s1 a PW2)
                                                           (eqb
                                                             (s1.jstm
                                                               (c1 s1))
                                                             (zb v)))
                                                         (Z.eqb
                                                           (x.ojs (c1 s1)) o))
                                                       (one a) (keep x)
                                                   | _ -> None)
                                                | XH ->
                                                  act_on s a (fun s1 ->
                                                    (&&) (at_pc s1 a PF4)
                                                      (negb
                                                        (is_co
                                                          (s1.kindm
                                                            (s1.bownerm
                                                              (s1.awm a))))))
                                                    (one a) (fun s1 _ ->
                                                    match bind_obj x.opk
                                                            (s1.awm a) o with
                                                    | Some m ->
                                                      Some (set_opk x m)
                                                    | None -> None))
                                             | XO p7 ->
                                               (match p7 with
                                                | XI p8 ->
                                                  (match p8 with
                                                   | XI _ -> None
                                                   | XO p9 ->
                                                     (match p9 with
                                                      | XH ->
                                                        if negb
                                                             (Nat.eqb
                                                               (x.nest a) O)
                                                        then if Z.eqb v
                                                                  (cwn s
                                                                    (x.nest
                                                                    a) a)
                                                             then skip x
                                                             else None
                                                        else if at_pc s a PCk
                                                             then act_on s a
                                                                    (fun s1 ->
                                                                    Z.eqb v
                                                                    (cword s1
                                                                    a))
                                                                    (one a)
                                                                    (keep x)
                                                             else if 
                                                                    phis x a
                                                                    (S (S (S
                                                                    (S (S (S
                                                                    (S (S
                                                                    O))))))))
                                                                  then 
                                                                    act_on s
                                                                    a
                                                                    (fun s1 ->
                                                                    (&&)
                                                                    (at_pc s1
                                                                    a PWW)
                                                                    (Z.eqb v
                                                                    (cword s1
                                                                    a)))
                                                                    (one a)
                                                                    (fun s1 s3 ->
                                                                    Some
                                                                    (set_ph x
                                                                    a
                                                                    (if 
                                                                    raised s1
                                                                    s3 a
                                                                    then O
                                                                    else 
                                                                    S (S (S
                                                                    (S (S (S
                                                                    (S (S (S
                                                                    O)))))))))))
                                                                  else 
                                                                    if 
                                                                    phis x a
                                                                    (S (S (S
                                                                    (S (S (S
                                                                    O))))))
                                                                    then 
                                                                    act_on s
                                                                    a
                                                                    (fun s1 ->
                                                                    (&&)
                                                                    (Z.eqb v
                                                                    (cword s1
                                                                    a))
                                                                    (negb
                                                                    ((&&)
                                                                    (cancel_due
                                                                    s1 a)
                                                                    (negb
                                                                    (unwinding
                                                                    (s1.unwm
                                                                    a))))))
                                                                    none_acts
                                                                    (fun _ _ ->
                                                                    Some
                                                                    (set_ph x
                                                                    a (S (S
                                                                    (S (S (S
                                                                    (S (S (S
                                                                    (S
                                                                    O)))))))))))
                                                                    else 
                                                                    if 
                                                                    phis x a
                                                                    (S (S (S
                                                                    (S (S (S
                                                                    (S
                                                                    O)))))))
                                                                    then 
                                                                    act_on s
                                                                    a
                                                                    (fun s1 ->
                                                                    Z.eqb v
                                                                    (cword s1
                                                                    a))
                                                                    none_acts
                                                                    (fun _ _ ->
                                                                    Some
                                                                    (set_ph x
                                                                    a (S (S
                                                                    (S (S (S
                                                                    (S (S (S
                                                                    (S
                                                                    O)))))))))))
                                                                    else 
                                                                    if 
                                                                    phis x a
                                                                    (S (S (S
                                                                    (S (S (S
                                                                    (S (S (S
                                                                    (S (S (S
                                                                    (S
                                                                    O)))))))))))))
                                                                    then 
                                                                    act_on s
                                                                    a
                                                                    (fun s1 ->
                                                                    Z.eqb v
                                                                    (cword s1
                                                                    a))
                                                                    none_acts
                                                                    (fun _ _ ->
                                                                    Some
                                                                    (set_ph x
                                                                    a O))
                                                                    else 
                                                                    if 
                                                                    (&&)
                                                                    (phis x a
                                                                    O)
                                                                    (at_pc s
                                                                    a PBody)
                                                                    then 
                                                                    act_on s
                                                                    a
                                                                    (fun s1 ->
                                                                    Z.eqb v
                                                                    (cword s1
                                                                    a))
                                                                    (fun s1 ->
                                                                    if 
                                                                    (&&)
                                                                    (Z.eqb v
                                                                    (Zpos
                                                                    XH))
                                                                    (negb
                                                                    (unwinding
                                                                    (s1.unwm
                                                                    a)))
                                                                    then 
                                                                    (CPoint
                                                                    a) :: []
                                                                    else [])
                                                                    (keep x)
                                                                    else None
                                                      | _ -> None)
                                                   | XH ->
                                                     act_on s a (fun s1 ->
                                                       (&&) (at_pc s1 a PT1)
                                                         (eqb
                                                           (s1.ipktm (c1 s1))
                                                           (zb v))) (one a)
                                                       (keep x))
                                                | XO p8 ->
                                                  (match p8 with
                                                   | XI p9 ->
                                                     (match p9 with
                                                      | XH ->
                                                        if phis x a O
                                                        then act_on s a
                                                               (fun s1 ->
                                                               (&&)
                                                                 ((&&)
                                                                   (at_pc s1
                                                                    a PPark)
                                                                   (is_co
                                                                    (s1.kindm
                                                                    a)))
                                                                 (eqb
                                                                   (s1.tokm
                                                                    (s1.jbm
                                                                    a))
                                                                   (zb v)))
                                                               (fun _ ->
                                                               if zb v
                                                               then (Step
                                                                    a) :: []
                                                               else [])
                                                               (fun s1 _ ->
                                                               match 
                                                               bind_obj x.opk
                                                                 (s1.jbm a) o with
                                                               | Some m ->
                                                                 Some
                                                                   (set_ph
                                                                    (set_opk
                                                                    x m) a
                                                                    (if zb v
                                                                    then 
                                                                    S (S (S
                                                                    O))
                                                                    else 
                                                                    S (S (S
                                                                    (S (S
                                                                    O))))))
                                                               | None -> None)
                                                        else if phis x a (S
                                                                  (S (S (S (S
                                                                  (S (S (S (S
                                                                  O)))))))))
                                                             then Some
                                                                    { acts =
                                                                    []; nxt =
                                                                    (set_ph x
                                                                    a
                                                                    (if zb v
                                                                    then 
                                                                    S (S (S
                                                                    (S (S (S
                                                                    (S (S (S
                                                                    (S
                                                                    O)))))))))
                                                                    else 
                                                                    S (S (S
                                                                    (S (S (S
                                                                    (S (S (S
                                                                    (S (S
                                                                    O)))))))))))) }
                                                             else None
                                                      | _ -> None)
                                                   | _ -> None)
                                                | XH ->
                                                  act_on s a (fun s1 ->
                                                    at_pc s1 a PBody)
                                                    (fun _ -> (Finish (a,
                                                    (Z.to_nat v))) :: [])
                                                    (keep x))
                                             | XH ->
                                               act_on s a (fun s1 ->
                                                 at_pc s1 a PDrop) (one a)
                                                 (keep x))
                                          | XO p6 ->
                                            (match p6 with
                                             | XI p7 ->
                                               (match p7 with
                                                | XI p8 ->
                                                  (match p8 with
                                                   | XH ->
                                                     act_on s a (fun s1 ->
                                                       (&&) (at_pc s1 a PF1)
                                                         (is_upanic
                                                           (s1.unwm a)))
                                                       none_acts (keep x)
                                                   | _ -> None)
                                                | XO p8 ->
                                                  (match p8 with
                                                   | XI p9 ->
                                                     (match p9 with
                                                      | XH ->
                                                        if phis x a (S (S (S
                                                             (S (S O)))))
                                                        then act_on s a
                                                               (fun s1 ->
                                                               (&&)
                                                                 ((&&)
                                                                   (at_pc s1
                                                                    a PPark)
                                                                   (eqb
                                                                    (s1.tokm
                                                                    (s1.jbm
                                                                    a))
                                                                    (zb v)))
                                                                 (Z.eqb
                                                                   (x.opk
                                                                    (s1.jbm
                                                                    a)) o))
                                                               (fun _ ->
                                                               if zb v
                                                               then (Step
                                                                    a) :: []
                                                               else [])
                                                               (fun _ _ ->
                                                               Some
                                                               (set_ph x a
                                                                 (if zb v
                                                                  then O
                                                                  else 
                                                                    S (S O))))
                                                        else if phis x a (S
                                                                  (S (S (S (S
                                                                  (S (S (S (S
                                                                  (S (S
                                                                  O)))))))))))
                                                             then Some
                                                                    { acts =
                                                                    []; nxt =
                                                                    (set_ph x
                                                                    a O) }
                                                             else None
                                                      | _ -> None)
                                                   | XO _ -> None
                                                   | XH ->
                                                     act_on s a (fun s1 ->
                                                       (&&) (at_pc s1 a PW0)
                                                         (eqb
                                                           (s1.jstm (c1 s1))
                                                           (zb v))) (one a)
                                                       (fun s1 _ ->
                                                       match bind_obj x.ojs
                                                               (c1 s1) o with
                                                       | Some m ->
                                                         Some (set_ojs x m)
                                                       | None -> None))
                                                | XH ->
                                                  act_on s a (fun s1 ->
                                                    (&&)
                                                      ((&&)
                                                        (at_pc s1 a PPark)
                                                        (negb
                                                          (is_co
                                                            (s1.kindm a))))
                                                      (phis x a O)) (one a)
                                                    (fun s1 s3 ->
                                                    match bind_obj x.opk
                                                            (s1.jbm a) o with
                                                    | Some m ->
                                                      Some
                                                        (set_ph (set_opk x m)
                                                          a
                                                          (if at_pc s3 a PWW
                                                           then S O
                                                           else S (S (S (S (S
                                                                  (S (S (S (S
                                                                  (S (S (S
                                                                  O)))))))))))))
                                                    | None -> None))
                                             | XO p7 ->
                                               (match p7 with
                                                | XI p8 ->
                                                  (match p8 with
                                                   | XI _ -> None
                                                   | XO p9 ->
                                                     (match p9 with
                                                      | XH ->
                                                        if (&&)
                                                             (Nat.eqb
                                                               (x.nest a) O)
                                                             ((||)
                                                               (at_pc s a
                                                                 PJ0)
                                                               (at_pc s a
                                                                 PDrop))
                                                        then act_on s a
                                                               (fun s1 ->
                                                               (&&)
                                                                 ((&&)
                                                                   (at_pc s1
                                                                    a PJ0)
                                                                   (is_co
                                                                    (s1.kindm
                                                                    a)))
                                                                 (Z.eqb v
                                                                   (cword s1
                                                                    a)))
                                                               (one a)
                                                               (keep x)
                                                        else if Z.eqb v
                                                                  (cwn s
                                                                    (x.nest
                                                                    a) a)
                                                             then Some
                                                                    { acts =
                                                                    []; nxt =
                                                                    (set_nest
                                                                    x a (S
                                                                    (x.nest
                                                                    a))) }
                                                             else None
                                                      | _ -> None)
                                                   | XH ->
                                                     act_on s a (fun s1 ->
                                                       (&&)
                                                         ((||)
                                                           (at_pc s1 a PF1)
                                                           (at_pc s1 a PF2))
                                                         (negb (zb v)))
                                                       (fun s1 ->
                                                       if at_pc s1 a PF1
                                                       then (Step
                                                              a) :: ((Step
                                                              a) :: [])
                                                       else (Step a) :: [])
                                                       (fun _ _ ->
                                                       match bind_obj x.ojs a
                                                               o with
                                                       | Some m ->
                                                         Some (set_ojs x m)
                                                       | None -> None))
                                                | XO _ -> None
                                                | XH ->
                                                  (match x.pmap (Z.to_nat o) with
                                                   | O -> None
                                                   | S c ->
                                                     act_on s a (fun s1 ->
                                                       at_pc s1 a PBody)
                                                       (fun _ -> (Join (a,
                                                       c)) :: []) (keep x)))
                                             | XH ->
                                               act_on s a (fun s1 ->
                                                 at_pc s1 a PBody) (fun _ ->
                                                 (Open a) :: []) (keep x))
                                          | XH ->
                                            let n = s.nexta in
                                            act_on s a (fun s1 ->
                                              at_pc s1 a PBody) (fun _ ->
                                              (Spawn (a,
                                              (Z.to_nat v))) :: [])
                                              (fun _ _ -> Some
                                              (set_pmap x
                                                (upd x.pmap (Z.to_nat o) (S
                                                  n)))))
                                       | XH -> None)
                                    | _ -> None)
                                 | None -> skip x))
                           | _ ->
                             (match task x ta with
                              | Some a ->
                                let c1 = fun s1 -> s1.jcm a in
                                (match code with
                                 | Zpos p3 ->
                                   (match p3 with
                                    | XI p4 ->
                                      (match p4 with
                                       | XI p5 ->
                                         (match p5 with
                                          | XI p6 ->
                                            (match p6 with
                                             | XI p7 ->
                                               (match p7 with
                                                | XH ->
                                                  act_on s a (fun s1 ->
                                                    (&&) (at_pc s1 a PRet)
                                                      (zb v)) (one a)
                                                    (keep x)
                                                | _ -> None)
                                             | XO p7 ->
                                               (match p7 with
                                                | XH ->
                                                  act_on s a (fun s1 ->
                                                    (&&)
                                                      ((&&) (at_pc s1 a PW3)
                                                        (eqb
                                                          (is_some
                                                            (s1.jwakem
                                                              (c1 s1)))
                                                          (zb v)))
                                                      (Z.eqb (x.ojw (c1 s1))
                                                        o)) (one a) (keep x)
                                                | _ -> None)
                                             | XH -> None)
                                          | XO p6 ->
                                            (match p6 with
                                             | XI p7 ->
                                               (match p7 with
                                                | XI _ -> None
                                                | XO p8 ->
                                                  (match p8 with
                                                   | XH ->
                                                     if negb
                                                          (Nat.eqb (x.nest a)
                                                            O)
                                                     then if Z.eqb v
                                                               (cwn s
                                                                 (x.nest a)
                                                                 a)
                                                          then skip x
                                                          else None
                                                     else if phis x a (S (S
                                                               O))
                                                          then act_on s a
                                                                 (fun s1 ->
                                                                 (&&)
                                                                   (at_pc s1
                                                                    a PPark)
                                                                   (Z.eqb v
                                                                    (cword s1
                                                                    a)))
                                                                 (one a)
                                                                 (fun s1 s3 ->
                                                                 Some
                                                                 (set_ph x a
                                                                   (if 
                                                                    s1.tokm
                                                                    (s1.jbm
                                                                    a)
                                                                    then 
                                                                    S (S (S
                                                                    (S (S (S
                                                                    O)))))
                                                                    else 
                                                                    if 
                                                                    at_pc s3
                                                                    a PWW
                                                                    then 
                                                                    S (S (S
                                                                    (S (S (S
                                                                    (S (S
                                                                    O)))))))
                                                                    else 
                                                                    if 
                                                                    raised s1
                                                                    s3 a
                                                                    then 
                                                                    S (S (S
                                                                    (S (S (S
                                                                    (S (S (S
                                                                    (S (S (S
                                                                    (S
                                                                    O))))))))))))
                                                                    else 
                                                                    S (S (S
                                                                    (S (S (S
                                                                    (S
                                                                    O)))))))))
                                                          else act_on s a
                                                                 (fun s1 ->
                                                                 Z.eqb v
                                                                   (cword s1
                                                                    a))
                                                                 none_acts
                                                                 (keep x)
                                                   | _ -> None)
                                                | XH ->
                                                  act_on s a (fun s1 ->
                                                    (&&) (at_pc s1 a PT2)
                                                      (eqb
                                                        (is_some
                                                          (s1.panm (c1 s1)))
                                                        (zb v))) (one a)
                                                    (keep x))
                                             | XO p7 ->
                                               (match p7 with
                                                | XI p8 ->
                                                  (match p8 with
                                                   | XH ->
                                                     if (||)
                                                          (phis x a (S (S (S
                                                            O))))
                                                          (phis x a (S (S (S
                                                            (S (S (S (S (S (S
                                                            (S O)))))))))))
                                                     then Some { acts = [];
                                                            nxt =
                                                            (set_ph x a O) }
                                                     else None
                                                   | _ -> None)
                                                | _ -> None)
                                             | XH -> None)
                                          | XH ->
                                            act_on s a (fun s1 ->
                                              at_pc s1 a PBody) (fun _ ->
                                              (Panic (a,
                                              (Z.to_nat o))) :: []) (keep x))
                                       | XO p5 ->
                                         (match p5 with
                                          | XI p6 ->
                                            (match p6 with
                                             | XI _ -> None
                                             | XO p7 ->
                                               (match p7 with
                                                | XI p8 ->
                                                  (match p8 with
                                                   | XH ->
                                                     act_on s a (fun s1 ->
                                                       (&&) (at_pc s1 a PF4)
                                                         (is_co
                                                           (s1.kindm
                                                             (s1.bownerm
                                                               (s1.awm a)))))
                                                       (one a) (fun s1 _ ->
                                                       match bind_obj x.opk
                                                               (s1.awm a) o with
                                                       | Some m ->
                                                         Some (set_opk x m)
                                                       | None -> None)
                                                   | _ -> None)
                                                | XO _ -> None
                                                | XH ->
                                                  act_on s a (fun s1 ->
                                                    at_pc s1 a PW1) (one a)
                                                    (fun s1 _ ->
                                                    match bind_obj x.ojw
                                                            (c1 s1) o with
                                                    | Some m ->
                                                      Some (set_ojw x m)
                                                    | None -> None))
                                             | XH ->
                                               if phis x a (S O)
                                               then act_on s a (fun s1 ->
                                                      (&&)
                                                        ((&&)
                                                          (at_pc s1 a PWW)
                                                          (zb v))
                                                        (Z.eqb
                                                          (x.opk (s1.jbm a))
                                                          o)) (one a)
                                                      (fun _ _ -> Some
                                                      (set_ph x a O))
                                               else if phis x a (S (S (S (S
                                                         (S (S (S (S (S (S (S
                                                         (S O))))))))))))
                                                    then act_on s a (fun _ ->
                                                           zb v) none_acts
                                                           (fun _ _ -> Some
                                                           (set_ph x a O))
                                                    else None)
                                          | XO p6 ->
                                            (match p6 with
                                             | XI p7 ->
                                               (match p7 with
                                                | XI _ -> None
                                                | XO p8 ->
                                                  (match p8 with
                                                   | XH ->
                                                     (match x.nest a with
                                                      | O ->
                                                        act_on s a (fun s1 ->
                                                          (&&)
                                                            (at_pc s1 a PEn)
                                                            (Z.eqb v
                                                              (cword s1 a)))
                                                          (one a) (keep x)
                                                      | S n ->
                                                        if Z.eqb v
                                                             (cwn s (S n) a)
                                                        then Some { acts =
                                                               []; nxt =
                                                               (set_nest x a
                                                                 n) }
                                                        else None)
                                                   | _ -> None)
                                                | XH ->
                                                  act_on s a (fun s1 ->
                                                    (&&) (at_pc s1 a PF3)
                                                      (eqb
                                                        (is_some
                                                          (s1.jwakem a))
                                                        (zb v))) (one a)
                                                    (fun _ _ ->
                                                    match bind_obj x.ojw a o with
                                                    | Some m ->
                                                      Some (set_ojw x m)
                                                    | None -> None))
                                             | XO _ -> None
                                             | XH ->
                                               (match x.pmap (Z.to_nat o) with
                                                | O -> None
                                                | S c ->
                                                  act_on s a (fun s1 ->
                                                    (&&)
                                                      ((&&)
                                                        (at_pc s1 a PBody)
                                                        (Nat.eqb (s1.gotm c)
                                                          (S O)))
                                                      (Z.eqb
                                                        (Z.of_nat
                                                          (s1.cvalm c)) v))
                                                    none_acts (keep x)))
                                          | XH ->
                                            act_on s a (fun s1 ->
                                              at_pc s1 a PBody) (fun _ ->
                                              (Close a) :: []) (keep x))
                                       | XH -> None)
                                    | XO p4 ->
                                      (match p4 with
                                       | XI p5 ->
                                         (match p5 with
                                          | XI p6 ->
                                            (match p6 with
                                             | XI p7 ->
                                               (match p7 with
                                                | XH ->
                                                  act_on s a (fun s1 ->
                                                    (&&) (at_pc s1 a PF1)
                                                      (negb
                                                        (unwinding
                                                          (s1.unwm a))))
                                                    none_acts (keep x)
                                                | _ -> None)
                                             | XO p7 ->
                                               (match p7 with
                                                | XH ->
                                                  act_on s a (fun s1 ->
                                                    (&&)
                                                      ((&&) (at_pc s1 a PW2)
                                                        (eqb
                                                          (s1.jstm (c1 s1))
                                                          (zb v)))
                                                      (Z.eqb (x.ojs (c1 s1))
                                                        o)) (one a) (keep x)
                                                | _ -> None)
                                             | XH ->
                                               act_on s a (fun s1 ->
                                                 (&&) (at_pc s1 a PF4)
                                                   (negb
                                                     (is_co
                                                       (s1.kindm
                                                         (s1.bownerm
                                                           (s1.awm a))))))
                                                 (one a) (fun s1 _ ->
                                                 match bind_obj x.opk
                                                         (s1.awm a) o with
                                                 | Some m ->
                                                   Some (set_opk x m)
                                                 | None -> None))
                                          | XO p6 ->
                                            (match p6 with
                                             | XI p7 ->
                                               (match p7 with
                                                | XI _ -> None
                                                | XO p8 ->
                                                  (match p8 with
                                                   | XH ->
                                                     if negb
                                                          (Nat.eqb (x.nest a)
                                                            O)
                                                     then if Z.eqb v
                                                               (cwn s
                                                                 (x.nest a)
                                                                 a)
                                                          then skip x
                                                          else None
                                                     else if at_pc s a PCk
                                                          then act_on s a
                                                                 (fun s1 ->
                                                                 Z.eqb v
                                                                   (cword s1
                                                                    a))
                                                                 (one a)
                                                                 (keep x)
                                                          else if phis x a (S
                                                                    (S (S (S
                                                                    (S (S (S
                                                                    (S
                                                                    O))))))))
                                                               then act_on s
                                                                    a
                                                                    (fun s1 ->
                                                                    (&&)
                                                                    (at_pc s1
                                                                    a PWW)
                                                                    (Z.eqb v
                                                                    (cword s1
                                                                    a)))
                                                                    (one a)
                                                                    (fun s1 s3 ->
                                                                    Some
                                                                    (set_ph x
                                                                    a
                                                                    (if 
                                                                    raised s1
                                                                    s3 a
                                                                    then O
                                                                    else 
                                                                    S (S (S
                                                                    (S (S (S
                                                                    (S (S (S
                                                                    O)))))))))))
                                                               else if 
                                                                    phis x a
                                                                    (S (S (S
                                                                    (S (S (S
                                                                    O))))))
                                                                    then 
                                                                    act_on s
                                                                    a
                                                                    (fun s1 ->
                                                                    (&&)
                                                                    (Z.eqb v
                                                                    (cword s1
                                                                    a))
                                                                    (negb
                                                                    ((&&)
                                                                    (cancel_due
                                                                    s1 a)
                                                                    (negb
                                                                    (unwinding
                                                                    (s1.unwm
                                                                    a))))))
                                                                    none_acts
                                                                    (fun _ _ ->
                                                                    Some
                                                                    (set_ph x
                                                                    a (S (S
                                                                    (S (S (S
                                                                    (S (S (S
                                                                    (S
                                                                    O)))))))))))
                                                                    else 
                                                                    if 
                                                                    phis x a
                                                                    (S (S (S
                                                                    (S (S (S
                                                                    (S
                                                                    O)))))))
                                                                    then 
                                                                    act_on s
                                                                    a
                                                                    (fun s1 ->
                                                                    Z.eqb v
                                                                    (cword s1
                                                                    a))
                                                                    none_acts
                                                                    (fun _ _ ->
                                                                    Some
                                                                    (set_ph x
                                                                    a (S (S
                                                                    (S (S (S
                                                                    (S (S (S
                                                                    (S
                                                                    O)))))))))))
                                                                    else 
                                                                    if 
                                                                    phis x a
                                                                    (S (S (S
                                                                    (S (S (S
                                                                    (S (S (S
                                                                    (S (S (S
                                                                    (S
                                                                    O)))))))))))))
                                                                    then 
                                                                    act_on s
                                                                    a
                                                                    (fun s1 ->
                                                                    Z.eqb v
                                                                    (cword s1
                                                                    a))
                                                                    none_acts
                                                                    (fun _ _ ->
                                                                    Some
                                                                    (set_ph x
                                                                    a O))
                                                                    else 
                                                                    if 
                                                                    (&&)
                                                                    (phis x a
                                                                    O)
                                                                    (at_pc s
                                                                    a PBody)
                                                                    then 
                                                                    act_on s
                                                                    a
                                                                    (fun s1 ->
                                                                    Z.eqb v
                                                                    (cword s1
                                                                    a))
                                                                    (fun s1 ->
                                                                    if 
                                                                    (&&)
                                                                    (Z.eqb v
                                                                    (Zpos
                                                                    XH))
                                                                    (negb
                                                                    (unwinding
                                                                    (s1.unwm
                                                                    a)))
                                                                    then 
                                                                    (CPoint
                                                                    a) :: []
                                                                    else [])
                                                                    (keep x)
                                                                    else None
                                                   | _ -> None)
                                                | XH ->
                                                  act_on s a (fun s1 ->
                                                    (&&) (at_pc s1 a PT1)
                                                      (eqb (s1.ipktm (c1 s1))
                                                        (zb v))) (one a)
                                                    (keep x))
                                             | XO p7 ->
                                               (match p7 with
                                                | XI p8 ->
                                                  (match p8 with
                                                   | XH ->
                                                     if phis x a O
                                                     then act_on s a
                                                            (fun s1 ->
                                                            (&&)
                                                              ((&&)
                                                                (at_pc s1 a
                                                                  PPark)
                                                                (is_co
                                                                  (s1.kindm
                                                                    a)))
                                                              (eqb
                                                                (s1.tokm
                                                                  (s1.jbm a))
                                                                (zb v)))
                                                            (fun _ ->
                                                            if zb v
                                                            then (Step
                                                                   a) :: []
                                                            else [])
                                                            (fun s1 _ ->
                                                            match bind_obj
                                                                    x.opk
                                                                    (s1.jbm
                                                                    a) o with
                                                            | Some m ->
                                                              Some
                                                                (set_ph
                                                                  (set_opk x
                                                                    m) a
                                                                  (if zb v
                                                                   then 
                                                                    S (S (S
                                                                    O))
                                                                   else 
                                                                    S (S (S
                                                                    (S (S
                                                                    O))))))
                                                            | None -> None)
                                                     else if phis x a (S (S
                                                               (S (S (S (S (S
                                                               (S (S
                                                               O)))))))))
                                                          then Some { acts =
                                                                 []; nxt =
                                                                 (set_ph x a
                                                                   (if zb v
                                                                    then 
                                                                    S (S (S
                                                                    (S (S (S
                                                                    (S (S (S
                                                                    (S
                                                                    O)))))))))
                                                                    else 
                                                                    S (S (S
                                                                    (S (S (S
                                                                    (S (S (S
                                                                    (S (S
                                                                    O)))))))))))) }
                                                          else None
                                                   | _ -> None)
                                                | _ -> None)
                                             | XH ->
                                               act_on s a (fun s1 ->
                                                 at_pc s1 a PBody) (fun _ ->
                                                 (Finish (a,
                                                 (Z.to_nat v))) :: [])
                                                 (keep x))
                                          | XH ->
                                            act_on s a (fun s1 ->
                                              at_pc s1 a PDrop) (one a)
                                              (keep x))
                                       | XO p5 ->
                                         (match p5 with
                                          | XI p6 ->
                                            (match p6 with
                                             | XI p7 ->
                                               (match p7 with
                                                | XH ->
                                                  act_on s a (fun s1 ->
                                                    (&&) (at_pc s1 a PF1)
                                                      (is_upanic (s1.unwm a)))
                                                    none_acts (keep x)
                                                | _ -> None)
                                             | XO p7 ->
                                               (match p7 with
                                                | XI p8 ->
                                                  (match p8 with
                                                   | XH ->
                                                     if phis x a (S (S (S (S
                                                          (S O)))))
                                                     then act_on s a
                                                            (fun s1 ->
                                                            (&&)
                                                              ((&&)
                                                                (at_pc s1 a
                                                                  PPark)
                                                                (eqb
                                                                  (s1.tokm
                                                                    (s1.jbm
                                                                    a))
                                                                  (zb v)))
                                                              (Z.eqb
                                                                (x.opk
                                                                  (s1.jbm a))
                                                                o)) (fun _ ->
                                                            if zb v
                                                            then (Step
                                                                   a) :: []
                                                            else [])
                                                            (fun _ _ -> Some
                                                            (set_ph x a
                                                              (if zb v
                                                               then O
                                                               else S (S O))))
                                                     else if phis x a (S (S
                                                               (S (S (S (S (S
                                                               (S (S (S (S
                                                               O)))))))))))
                                                          then Some { acts =
                                                                 []; nxt =
                                                                 (set_ph x a
                                                                   O) }
                                                          else None
                                                   | _ -> None)
                                                | XO _ -> None
                                                | XH ->
                                                  act_on s a (fun s1 ->
                                                    (&&) (at_pc s1 a PW0)
                                                      (eqb (s1.jstm (c1 s1))
                                                        (zb v))) (one a)
                                                    (fun s1 _ ->
                                                    match bind_obj x.ojs
                                                            (c1 s1) o with
                                                    | Some m ->
                                                      Some (set_ojs x m)
                                                    | None -> None))
                                             | XH ->
                                               act_on s a (fun s1 ->
                                                 (&&)
                                                   ((&&) (at_pc s1 a PPark)
                                                     (negb
                                                       (is_co (s1.kindm a))))
                                                   (phis x a O)) (one a)
                                                 (fun s1 s3 ->
                                                 match bind_obj x.opk
                                                         (s1.jbm a) o with
                                                 | Some m ->
                                                   Some
                                                     (set_ph (set_opk x m) a
                                                       (if at_pc s3 a PWW
                                                        then S O
                                                        else S (S (S (S (S (S
                                                               (S (S (S (S (S
                                                               (S
                                                               O)))))))))))))
                                                 | None -> None))
                                          | XO p6 ->
                                            (match p6 with
                                             | XI p7 ->
                                               (match p7 with
                                                | XI _ -> None
                                                | XO p8 ->
                                                  (match p8 with
                                                   | XH ->
                                                     if (&&)
                                                          (Nat.eqb (x.nest a)
                                                            O)
                                                          ((||)
                                                            (at_pc s a PJ0)
                                                            (at_pc s a PDrop))
                                                     then act_on s a
                                                            (fun s1 ->
                                                            (&&)
                                                              ((&&)
                                                                (at_pc s1 a
                                                                  PJ0)
                                                                (is_co
                                                                  (s1.kindm
                                                                    a)))
                                                              (Z.eqb v
                                                                (cword s1 a)))
                                                            (one a) (keep x)
                                                     else if Z.eqb v
                                                               (cwn s
                                                                 (x.nest a)
                                                                 a)
                                                          then Some { acts =
                                                                 []; nxt =
                                                                 (set_nest x
                                                                   a (S
                                                                   (x.nest a))) }
                                                          else None
                                                   | _ -> None)
                                                | XH ->
                                                  act_on s a (fun s1 ->
                                                    (&&)
                                                      ((||) (at_pc s1 a PF1)
                                                        (at_pc s1 a PF2))
                                                      (negb (zb v)))
                                                    (fun s1 ->
                                                    if at_pc s1 a PF1
                                                    then (Step a) :: ((Step
                                                           a) :: [])
                                                    else (Step a) :: [])
                                                    (fun _ _ ->
                                                    match bind_obj x.ojs a o with
                                                    | Some m ->
                                                      Some (set_ojs x m)
                                                    | None -> None))
                                             | XO _ -> None
                                             | XH ->
                                               (match x.pmap (Z.to_nat o) with
                                                | O -> None
                                                | S c ->
                                                  act_on s a (fun s1 ->
                                                    at_pc s1 a PBody)
                                                    (fun _ -> (Join (a,
                                                    c)) :: []) (keep x)))
                                          | XH ->
                                            act_on s a (fun s1 ->
                                              at_pc s1 a PBody) (fun _ ->
                                              (Open a) :: []) (keep x))
                                       | XH ->
                                         let n = s.nexta in
                                         act_on s a (fun s1 ->
                                           at_pc s1 a PBody) (fun _ -> (Spawn
                                           (a, (Z.to_nat v))) :: [])
                                           (fun _ _ -> Some
                                           (set_pmap x
                                             (upd x.pmap (Z.to_nat o) (S n)))))
                                    | XH -> None)
                                 | _ -> None)
                              | None -> skip x))
                        | _ ->
                          (match task x ta with
                           | Some a ->
                             let c1 = fun s1 -> s1.jcm a in
                             (match code with
                              | Zpos p2 ->
                                (match p2 with
                                 | XI p3 ->
                                   (match p3 with
                                    | XI p4 ->
                                      (match p4 with
                                       | XI p5 ->
                                         (match p5 with
                                          | XI p6 ->
                                            (match p6 with
                                             | XH ->
                                               act_on s a (fun s1 ->
                                                 (&&) (at_pc s1 a PRet)
                                                   (zb v)) (one a) (keep x)
                                             | _ -> None)
                                          | XO p6 ->
                                            (match p6 with
                                             | XH ->
                                               act_on s a (fun s1 ->
                                                 (&&)
                                                   ((&&) (at_pc s1 a PW3)
                                                     (eqb
                                                       (is_some
                                                         (s1.jwakem (c1 s1)))
                                                       (zb v)))
                                                   (Z.eqb (x.ojw (c1 s1)) o))
                                                 (one a) (keep x)
                                             | _ -> None)
                                          | XH -> None)
                                       | XO p5 ->
                                         (match p5 with
                                          | XI p6 ->
                                            (match p6 with
                                             | XI _ -> None
                                             | XO p7 ->
                                               (match p7 with
                                                | XH ->
                                                  if negb
                                                       (Nat.eqb (x.nest a) O)
                                                  then if Z.eqb v
                                                            (cwn s (x.nest a)
                                                              a)
                                                       then skip x
                                                       else None
                                                  else if phis x a (S (S O))
                                                       then act_on s a
                                                              (fun s1 ->
                                                              (&&)
                                                                (at_pc s1 a
                                                                  PPark)
                                                                (Z.eqb v
                                                                  (cword s1
                                                                    a)))
                                                              (one a)
                                                              (fun s1 s3 ->
                                                              Some
                                                              (set_ph x a
                                                                (if s1.tokm
                                                                    (s1.jbm
                                                                    a)
                                                                 then 
                                                                   S (S (S (S
                                                                    (S (S
                                                                    O)))))
                                                                 else 
                                                                   if 
                                                                    at_pc s3
                                                                    a PWW
                                                                   then 
                                                                    S (S (S
                                                                    (S (S (S
                                                                    (S (S
                                                                    O)))))))
                                                                   else 
                                                                    if 
                                                                    raised s1
                                                                    s3 a
                                                                    then 
                                                                    S (S (S
                                                                    (S (S (S
                                                                    (S (S (S
                                                                    (S (S (S
                                                                    (S
                                                                    O))))))))))))
                                                                    else 
                                                                    S (S (S
                                                                    (S (S (S
                                                                    (S
                                                                    O)))))))))
                                                       else act_on s a
                                                              (fun s1 ->
                                                              Z.eqb v
                                                                (cword s1 a))
                                                              none_acts
                                                              (keep x)
                                                | _ -> None)
                                             | XH ->
                                               act_on s a (fun s1 ->
                                                 (&&) (at_pc s1 a PT2)
                                                   (eqb
                                                     (is_some
                                                       (s1.panm (c1 s1)))
                                                     (zb v))) (one a)
                                                 (keep x))
                                          | XO p6 ->
                                            (match p6 with
                                             | XI p7 ->
                                               (match p7 with
                                                | XH ->
                                                  if (||)
                                                       (phis x a (S (S (S
                                                         O))))
                                                       (phis x a (S (S (S (S
                                                         (S (S (S (S (S (S
                                                         O)))))))))))
                                                  then Some { acts = [];
                                                         nxt =
                                                         (set_ph x a O) }
                                                  else None
                                                | _ -> None)
                                             | _ -> None)
                                          | XH -> None)
                                       | XH ->
                                         act_on s a (fun s1 ->
                                           at_pc s1 a PBody) (fun _ -> (Panic
                                           (a, (Z.to_nat o))) :: []) 
                                           (keep x))
                                    | XO p4 ->
                                      (match p4 with
                                       | XI p5 ->
                                         (match p5 with
                                          | XI _ -> None
                                          | XO p6 ->
                                            (match p6 with
                                             | XI p7 ->
                                               (match p7 with
                                                | XH ->
                                                  act_on s a (fun s1 ->
                                                    (&&) (at_pc s1 a PF4)
                                                      (is_co
                                                        (s1.kindm
                                                          (s1.bownerm
                                                            (s1.awm a)))))
                                                    (one a) (fun s1 _ ->
                                                    match bind_obj x.opk
                                                            (s1.awm a) o with
                                                    | Some m ->
                                                      Some (set_opk x m)
                                                    | None -> None)
                                                | _ -> None)
                                             | XO _ -> None
                                             | XH ->
                                               act_on s a (fun s1 ->
                                                 at_pc s1 a PW1) (one a)
                                                 (fun s1 _ ->
                                                 match bind_obj x.ojw 
                                                         (c1 s1) o with
                                                 | Some m ->
                                                   Some (set_ojw x m)
                                                 | None -> None))
                                          | XH ->
                                            if phis x a (S O)
                                            then act_on s a (fun s1 ->
                                                   (&&)
                                                     ((&&) (at_pc s1 a PWW)
                                                       (zb v))
                                                     (Z.eqb
                                                       (x.opk (s1.jbm a)) o))
                                                   (one a) (fun _ _ -> Some
                                                   (set_ph x a O))
                                            else if phis x a (S (S (S (S (S
                                                      (S (S (S (S (S (S (S
                                                      O))))))))))))
                                                 then act_on s a (fun _ ->
                                                        zb v) none_acts
                                                        (fun _ _ -> Some
                                                        (set_ph x a O))
                                                 else None)
                                       | XO p5 ->
                                         (match p5 with
                                          | XI p6 ->
                                            (match p6 with
                                             | XI _ -> None
                                             | XO p7 ->
                                               (match p7 with
                                                | XH ->
                                                  (match x.nest a with
                                                   | O ->
                                                     act_on s a (fun s1 ->
                                                       (&&) (at_pc s1 a PEn)
                                                         (Z.eqb v
                                                           (cword s1 a)))
                                                       (one a) (keep x)
                                                   | S n ->
                                                     if Z.eqb v
                                                          (cwn s (S n) a)
                                                     then Some { acts = [];
                                                            nxt =
                                                            (set_nest x a n) }
                                                     else None)
                                                | _ -> None)
                                             | XH ->
                                               act_on s a (fun s1 ->
                                                 (&&) (at_pc s1 a PF3)
                                                   (eqb
                                                     (is_some (s1.jwakem a))
                                                     (zb v))) (one a)
                                                 (fun _ _ ->
                                                 match bind_obj x.ojw a o with
                                                 | Some m ->
                                                   Some (set_ojw x m)
                                                 | None -> None))
                                          | XO _ -> None
                                          | XH ->
                                            (match x.pmap (Z.to_nat o) with
                                             | O -> None
                                             | S c ->
                                               act_on s a (fun s1 ->
                                                 (&&)
                                                   ((&&) (at_pc s1 a PBody)
                                                     (Nat.eqb (s1.gotm c) (S
                                                       O)))
                                                   (Z.eqb
                                                     (Z.of_nat (s1.cvalm c))
                                                     v)) none_acts (keep x)))
                                       | XH ->
                                         act_on s a (fun s1 ->
                                           at_pc s1 a PBody) (fun _ -> (Close
                                           a) :: []) (keep x))
                                    | XH -> None)
                                 | XO p3 ->
                                   (match p3 with
                                    | XI p4 ->
                                      (match p4 with
                                       | XI p5 ->
                                         (match p5 with
                                          | XI p6 ->
                                            (match p6 with
                                             | XH ->
                                               act_on s a (fun s1 ->
                                                 (&&) (at_pc s1 a PF1)
                                                   (negb
                                                     (unwinding (s1.unwm a))))
                                                 none_acts (keep x)
                                             | _ -> None)
                                          | XO p6 ->
                                            (match p6 with
                                             | XH ->
                                               act_on s a (fun s1 ->
                                                 (&&)
                                                   ((&&) (at_pc s1 a PW2)
                                                     (eqb (s1.jstm (c1 s1))
                                                       (zb v)))
                                                   (Z.eqb (x.ojs (c1 s1)) o))
                                                 (one a) (keep x)
                                             | _ -> None)
                                          | XH ->
                                            act_on s a (fun s1 ->
                                              (&&) (at_pc s1 a PF4)
                                                (negb
                                                  (is_co
                                                    (s1.kindm
                                                      (s1.bownerm (s1.awm a))))))
                                              (one a) (fun s1 _ ->
                                              match bind_obj x.opk (s1.awm a)
                                                      o with
                                              | Some m -> Some (set_opk x m)
                                              | None -> None))
                                       | XO p5 ->
                                         (match p5 with
                                          | XI p6 ->
                                            (match p6 with
                                             | XI _ -> None
                                             | XO p7 ->
                                               (match p7 with
                                                | XH ->
                                                  if negb
                                                       (Nat.eqb (x.nest a) O)
                                                  then if Z.eqb v
                                                            (cwn s (x.nest a)
                                                              a)
                                                       then skip x
                                                       else None
                                                  else if at_pc s a PCk
                                                       then act_on s a
                                                              (fun s1 ->
                                                              Z.eqb v
                                                                (cword s1 a))
                                                              (one a)
                                                              (keep x)
                                                       else if phis x a (S (S
                                                                 (S (S (S (S
                                                                 (S (S
                                                                 O))))))))
                                                            then act_on s a
                                                                   (fun s1 ->
                                                                   (&&)
                                                                    (at_pc s1
                                                                    a PWW)
                                                                    (Z.eqb v
                                                                    (cword s1
                                                                    a)))
                                                                   (one a)
                                                                   (fun s1 s3 ->
                                                                   Some
                                                                   (set_ph x
                                                                    a
                                                                    (if 
                                                                    raised s1
                                                                    s3 a
                                                                    then O
                                                                    else 
                                                                    S (S (S
                                                                    (S (S (S
                                                                    (S (S (S
                                                                    O)))))))))))
                                                            else if phis x a
                                                                    (S (S (S
                                                                    (S (S (S
                                                                    O))))))
                                                                 then 
                                                                   act_on s a
                                                                    (fun s1 ->
                                                                    (&&)
                                                                    (Z.eqb v
                                                                    (cword s1
                                                                    a))
                                                                    (negb
                                                                    ((&&)
                                                                    (cancel_due
                                                                    s1 a)
                                                                    (negb
                                                                    (unwinding
                                                                    (s1.unwm
                                                                    a))))))
                                                                    none_acts
                                                                    (fun _ _ ->
                                                                    Some
                                                                    (set_ph x
                                                                    a (S (S
                                                                    (S (S (S
                                                                    (S (S (S
                                                                    (S
                                                                    O)))))))))))
                                                                 else 
                                                                   if 
                                                                    phis x a
                                                                    (S (S (S
                                                                    (S (S (S
                                                                    (S
                                                                    O)))))))
                                                                   then 
                                                                    act_on s
                                                                    a
                                                                    (fun s1 ->
                                                                    Z.eqb v
                                                                    (cword s1
                                                                    a))
                                                                    none_acts
                                                                    (fun _ _ ->
                                                                    Some
                                                                    (set_ph x
                                                                    a (S (S
                                                                    (S (S (S
                                                                    (S (S (S
                                                                    (S
                                                                    O)))))))))))
                                                                   else 
                                                                    if 
                                                                    phis x a
                                                                    (S (S (S
                                                                    (S (S (S
                                                                    (S (S (S
                                                                    (S (S (S
                                                                    (S
                                                                    O)))))))))))))
                                                                    then 
                                                                    act_on s
                                                                    a
                                                                    (fun s1 ->
                                                                    Z.eqb v
                                                                    (cword s1
                                                                    a))
                                                                    none_acts
                                                                    (fun _ _ ->
                                                                    Some
                                                                    (set_ph x
                                                                    a O))
                                                                    else 
                                                                    if 
                                                                    (&&)
                                                                    (phis x a
                                                                    O)
                                                                    (at_pc s
                                                                    a PBody)
                                                                    then 
                                                                    act_on s
                                                                    a
                                                                    (fun s1 ->
                                                                    Z.eqb v
                                                                    (cword s1
                                                                    a))
                                                                    (fun s1 ->
                                                                    if 
                                                                    (&&)
                                                                    (Z.eqb v
                                                                    (Zpos
                                                                    XH))
                                                                    (negb
                                                                    (unwinding
                                                                    (s1.unwm
                                                                    a)))
                                                                    then 
                                                                    (CPoint
                                                                    a) :: []
                                                                    else [])
                                                                    (keep x)
                                                                    else None
                                                | _ -> None)
                                             | XH ->
                                               act_on s a (fun s1 ->
                                                 (&&) (at_pc s1 a PT1)
                                                   (eqb (s1.ipktm (c1 s1))
                                                     (zb v))) (one a)
                                                 (keep x))
                                          | XO p6 ->
                                            (match p6 with
                                             | XI p7 ->
                                               (match p7 with
                                                | XH ->
                                                  if phis x a O
                                                  then act_on s a (fun s1 ->
                                                         (&&)
                                                           ((&&)
                                                             (at_pc s1 a
                                                               PPark)
                                                             (is_co
                                                               (s1.kindm a)))
                                                           (eqb
                                                             (s1.tokm
                                                               (s1.jbm a))
                                                             (zb v)))
                                                         (fun _ ->
                                                         if zb v
                                                         then (Step a) :: []
                                                         else [])
                                                         (fun s1 _ ->
                                                         match bind_obj x.opk
                                                                 (s1.jbm a) o with
                                                         | Some m ->
                                                           Some
                                                             (set_ph
                                                               (set_opk x m)
                                                               a
                                                               (if zb v
                                                                then 
                                                                  S (S (S O))
                                                                else 
                                                                  S (S (S (S
                                                                    (S O))))))
                                                         | None -> None)
                                                  else if phis x a (S (S (S
                                                            (S (S (S (S (S (S
                                                            O)))))))))
                                                       then Some { acts = [];
                                                              nxt =
                                                              (set_ph x a
                                                                (if zb v
                                                                 then 
                                                                   S (S (S (S
                                                                    (S (S (S
                                                                    (S (S (S
                                                                    O)))))))))
                                                                 else 
                                                                   S (S (S (S
                                                                    (S (S (S
                                                                    (S (S (S
                                                                    (S
                                                                    O)))))))))))) }
                                                       else None
                                                | _ -> None)
                                             | _ -> None)
                                          | XH ->
                                            act_on s a (fun s1 ->
                                              at_pc s1 a PBody) (fun _ ->
                                              (Finish (a,
                                              (Z.to_nat v))) :: []) (keep x))
                                       | XH ->
                                         act_on s a (fun s1 ->
                                           at_pc s1 a PDrop) (one a) 
                                           (keep x))
                                    | XO p4 ->
                                      (match p4 with
                                       | XI p5 ->
                                         (match p5 with
                                          | XI p6 ->
                                            (match p6 with
                                             | XH ->
                                               act_on s a (fun s1 ->
                                                 (&&) (at_pc s1 a PF1)
                                                   (is_upanic (s1.unwm a)))
                                                 none_acts (keep x)
                                             | _ -> None)
                                          | XO p6 ->
                                            (match p6 with
                                             | XI p7 ->
                                               (match p7 with
                                                | XH ->
                                                  if phis x a (S (S (S (S (S
                                                       O)))))
                                                  then act_on s a (fun s1 ->
                                                         (&&)
                                                           ((&&)
                                                             (at_pc s1 a
                                                               PPark)
                                                             (eqb
                                                               (s1.tokm
                                                                 (s1.jbm a))
                                                               (zb v)))
                                                           (Z.eqb
                                                             (x.opk
                                                               (s1.jbm a)) o))
                                                         (fun _ ->
                                                         if zb v
                                                         then (Step a) :: []
                                                         else []) (fun _ _ ->
                                                         Some
                                                         (set_ph x a
                                                           (if zb v
                                                            then O
                                                            else S (S O))))
                                                  else if phis x a (S (S (S
                                                            (S (S (S (S (S (S
                                                            (S (S
                                                            O)))))))))))
                                                       then Some { acts = [];
                                                              nxt =
                                                              (set_ph x a O) }
                                                       else None
                                                | _ -> None)
                                             | XO _ -> None
                                             | XH ->
                                               act_on s a (fun s1 ->
                                                 (&&) (at_pc s1 a PW0)
                                                   (eqb (s1.jstm (c1 s1))
                                                     (zb v))) (one a)
                                                 (fun s1 _ ->
                                                 match bind_obj x.ojs 
                                                         (c1 s1) o with
                                                 | Some m ->
                                                   Some (set_ojs x m)
                                                 | None -> None))
                                          | XH ->
                                            act_on s a (fun s1 ->
                                              (&&)
                                                ((&&) (at_pc s1 a PPark)
                                                  (negb (is_co (s1.kindm a))))
                                                (phis x a O)) (one a)
                                              (fun s1 s3 ->
                                              match bind_obj x.opk (s1.jbm a)
                                                      o with
                                              | Some m ->
                                                Some
                                                  (set_ph (set_opk x m) a
                                                    (if at_pc s3 a PWW
                                                     then S O
                                                     else S (S (S (S (S (S (S
                                                            (S (S (S (S (S
                                                            O)))))))))))))
                                              | None -> None))
                                       | XO p5 ->
                                         (match p5 with
                                          | XI p6 ->
                                            (match p6 with
                                             | XI _ -> None
                                             | XO p7 ->
                                               (match p7 with
                                                | XH ->
                                                  if (&&)
                                                       (Nat.eqb (x.nest a) O)
                                                       ((||) (at_pc s a PJ0)
                                                         (at_pc s a PDrop))
                                                  then act_on s a (fun s1 ->
                                                         (&&)
                                                           ((&&)
                                                             (at_pc s1 a PJ0)
                                                             (is_co
                                                               (s1.kindm a)))
                                                           (Z.eqb v
                                                             (cword s1 a)))
                                                         (one a) (keep x)
                                                  else if Z.eqb v
                                                            (cwn s (x.nest a)
                                                              a)
                                                       then Some { acts = [];
                                                              nxt =
                                                              (set_nest x a
                                                                (S
                                                                (x.nest a))) }
                                                       else None
                                                | _ -> None)
                                             | XH ->
                                               act_on s a (fun s1 ->
                                                 (&&)
                                                   ((||) (at_pc s1 a PF1)
                                                     (at_pc s1 a PF2))
                                                   (negb (zb v))) (fun s1 ->
                                                 if at_pc s1 a PF1
                                                 then (Step a) :: ((Step
                                                        a) :: [])
                                                 else (Step a) :: [])
                                                 (fun _ _ ->
                                                 match bind_obj x.ojs a o with
                                                 | Some m ->
                                                   Some (set_ojs x m)
                                                 | None -> None))
                                          | XO _ -> None
                                          | XH ->
                                            (match x.pmap (Z.to_nat o) with
                                             | O -> None
                                             | S c ->
                                               act_on s a (fun s1 ->
                                                 at_pc s1 a PBody) (fun _ ->
                                                 (Join (a, c)) :: [])
                                                 (keep x)))
                                       | XH ->
                                         act_on s a (fun s1 ->
                                           at_pc s1 a PBody) (fun _ -> (Open
                                           a) :: []) (keep x))
                                    | XH ->
                                      let n = s.nexta in
                                      act_on s a (fun s1 -> at_pc s1 a PBody)
                                        (fun _ -> (Spawn (a,
                                        (Z.to_nat v))) :: []) (fun _ _ ->
                                        Some
                                        (set_pmap x
                                          (upd x.pmap (Z.to_nat o) (S n)))))
                                 | XH -> None)
                              | _ -> None)
                           | None -> skip x))
                     | XH ->
                       (match task x ta with
                        | Some a ->
                          let c1 = fun s1 -> s1.jcm a in
                          (match code with
                           | Zpos p1 ->
                             (match p1 with
                              | XI p2 ->
                                (match p2 with
                                 | XI p3 ->
                                   (match p3 with
                                    | XI p4 ->
                                      (match p4 with
                                       | XI p5 ->
                                         (match p5 with
                                          | XH ->
                                            act_on s a (fun s1 ->
                                              (&&) (at_pc s1 a PRet) (zb v))
                                              (one a) (keep x)
                                          | _ -> None)
                                       | XO p5 ->
                                         (match p5 with
                                          | XH ->
                                            act_on s a (fun s1 ->
                                              (&&)
                                                ((&&) (at_pc s1 a PW3)
                                                  (eqb
                                                    (is_some
                                                      (s1.jwakem (c1 s1)))
                                                    (zb v)))
                                                (Z.eqb (x.ojw (c1 s1)) o))
                                              (one a) (keep x)
                                          | _ -> None)
                                       | XH -> None)
                                    | XO p4 ->
                                      (match p4 with
                                       | XI p5 ->
                                         (match p5 with
                                          | XI _ -> None
                                          | XO p6 ->
                                            (match p6 with
                                             | XH ->
                                               if negb (Nat.eqb (x.nest a) O)
                                               then if Z.eqb v
                                                         (cwn s (x.nest a) a)
                                                    then skip x
                                                    else None
                                               else if phis x a (S (S O))
                                                    then act_on s a
                                                           (fun s1 ->
                                                           (&&)
                                                             (at_pc s1 a
                                                               PPark)
                                                             (Z.eqb v
                                                               (cword s1 a)))
                                                           (one a)
                                                           (fun s1 s3 -> Some
                                                           (set_ph x a
                                                             (if s1.tokm
                                                                   (s1.jbm a)
                                                              then S (S (S (S
                                                                    (S (S
                                                                    O)))))
                                                              else if 
                                                                    at_pc s3
                                                                    a PWW
                                                                   then 
                                                                    S (S (S
                                                                    (S (S (S
                                                                    (S (S
                                                                    O)))))))
                                                                   else 
                                                                    if 
                                                                    raised s1
                                                                    s3 a
                                                                    then 
                                                                    S (S (S
                                                                    (S (S (S
                                                                    (S (S (S
                                                                    (S (S (S
                                                                    (S
                                                                    O))))))))))))
                                                                    else 
                                                                    S (S (S
                                                                    (S (S (S
                                                                    (S
                                                                    O)))))))))
                                                    else act_on s a
                                                           (fun s1 ->
                                                           Z.eqb v
                                                             (cword s1 a))
                                                           none_acts 
                                                           (keep x)
                                             | _ -> None)
                                          | XH ->
                                            act_on s a (fun s1 ->
                                              (&&) (at_pc s1 a PT2)
                                                (eqb
                                                  (is_some (s1.panm (c1 s1)))
                                                  (zb v))) (one a) (keep x))
                                       | XO p5 ->
                                         (match p5 with
                                          | XI p6 ->
                                            (match p6 with
                                             | XH ->
                                               if (||)
                                                    (phis x a (S (S (S O))))
                                                    (phis x a (S (S (S (S (S
                                                      (S (S (S (S (S
                                                      O)))))))))))
                                               then Some { acts = []; nxt =
                                                      (set_ph x a O) }
                                               else None
                                             | _ -> None)
                                          | _ -> None)
                                       | XH -> None)
                                    | XH ->
                                      act_on s a (fun s1 -> at_pc s1 a PBody)
                                        (fun _ -> (Panic (a,
                                        (Z.to_nat o))) :: []) (keep x))
                                 | XO p3 ->
                                   (match p3 with
                                    | XI p4 ->
                                      (match p4 with
                                       | XI _ -> None
                                       | XO p5 ->
                                         (match p5 with
                                          | XI p6 ->
                                            (match p6 with
                                             | XH ->
                                               act_on s a (fun s1 ->
                                                 (&&) (at_pc s1 a PF4)
                                                   (is_co
                                                     (s1.kindm
                                                       (s1.bownerm
                                                         (s1.awm a)))))
                                                 (one a) (fun s1 _ ->
                                                 match bind_obj x.opk
                                                         (s1.awm a) o with
                                                 | Some m ->
                                                   Some (set_opk x m)
                                                 | None -> None)
                                             | _ -> None)
                                          | XO _ -> None
                                          | XH ->
                                            act_on s a (fun s1 ->
                                              at_pc s1 a PW1) (one a)
                                              (fun s1 _ ->
                                              match bind_obj x.ojw (c1 s1) o with
                                              | Some m -> Some (set_ojw x m)
                                              | None -> None))
                                       | XH ->
                                         if phis x a (S O)
                                         then act_on s a (fun s1 ->
                                                (&&)
                                                  ((&&) (at_pc s1 a PWW)
                                                    (zb v))
                                                  (Z.eqb (x.opk (s1.jbm a))
                                                    o)) (one a) (fun _ _ ->
                                                Some (set_ph x a O))
                                         else if phis x a (S (S (S (S (S (S
                                                   (S (S (S (S (S (S
                                                   O))))))))))))
                                              then act_on s a (fun _ -> 
                                                     zb v) none_acts
                                                     (fun _ _ -> Some
                                                     (set_ph x a O))
                                              else None)
                                    | XO p4 ->
                                      (match p4 with
                                       | XI p5 ->
                                         (match p5 with
                                          | XI _ -> None
                                          | XO p6 ->
                                            (match p6 with
                                             | XH ->
                                               (match x.nest a with
                                                | O ->
                                                  act_on s a (fun s1 ->
                                                    (&&) (at_pc s1 a PEn)
                                                      (Z.eqb v (cword s1 a)))
                                                    (one a) (keep x)
                                                | S n ->
                                                  if Z.eqb v (cwn s (S n) a)
                                                  then Some { acts = [];
                                                         nxt =
                                                         (set_nest x a n) }
                                                  else None)
                                             | _ -> None)
                                          | XH ->
                                            act_on s a (fun s1 ->
                                              (&&) (at_pc s1 a PF3)
                                                (eqb (is_some (s1.jwakem a))
                                                  (zb v))) (one a)
                                              (fun _ _ ->
                                              match bind_obj x.ojw a o with
                                              | Some m -> Some (set_ojw x m)
                                              | None -> None))
                                       | XO _ -> None
                                       | XH ->
                                         (match x.pmap (Z.to_nat o) with
                                          | O -> None
                                          | S c ->
                                            act_on s a (fun s1 ->
                                              (&&)
                                                ((&&) (at_pc s1 a PBody)
                                                  (Nat.eqb (s1.gotm c) (S O)))
                                                (Z.eqb
                                                  (Z.of_nat (s1.cvalm c)) v))
                                              none_acts (keep x)))
                                    | XH ->
                                      act_on s a (fun s1 -> at_pc s1 a PBody)
                                        (fun _ -> (Close a) :: []) (keep x))
                                 | XH -> None)
                              | XO p2 ->
                                (match p2 with
                                 | XI p3 ->
                                   (match p3 with
                                    | XI p4 ->
                                      (match p4 with
                                       | XI p5 ->
                                         (match p5 with
                                          | XH ->
                                            act_on s a (fun s1 ->
                                              (&&) (at_pc s1 a PF1)
                                                (negb
                                                  (unwinding (s1.unwm a))))
                                              none_acts (keep x)
                                          | _ -> None)
                                       | XO p5 ->
                                         (match p5 with
                                          | XH ->
                                            act_on s a (fun s1 ->
                                              (&&)
                                                ((&&) (at_pc s1 a PW2)
                                                  (eqb (s1.jstm (c1 s1))
                                                    (zb v)))
                                                (Z.eqb (x.ojs (c1 s1)) o))
                                              (one a) (keep x)
                                          | _ -> None)
                                       | XH ->
                                         act_on s a (fun s1 ->
                                           (&&) (at_pc s1 a PF4)
                                             (negb
                                               (is_co
                                                 (s1.kindm
                                                   (s1.bownerm (s1.awm a))))))
                                           (one a) (fun s1 _ ->
                                           match bind_obj x.opk (s1.awm a) o with
                                           | Some m -> Some (set_opk x m)
                                           | None -> None))
                                    | XO p4 ->
                                      (match p4 with
                                       | XI p5 ->
                                         (match p5 with
                                          | XI _ -> None
                                          | XO p6 ->
                                            (match p6 with
                                             | XH ->
                                               if negb (Nat.eqb (x.nest a) O)
                                               then if Z.eqb v
                                                         (cwn s (x.nest a) a)
                                                    then skip x
                                                    else None
                                               else if at_pc s a PCk
                                                    then act_on s a
                                                           (fun s1 ->
                                                           Z.eqb v
                                                             (cword s1 a))
                                                           (one a) (keep x)
                                                    else if phis x a (S (S (S
                                                              (S (S (S (S (S
                                                              O))))))))
                                                         then act_on s a
                                                                (fun s1 ->
                                                                (&&)
                                                                  (at_pc s1 a
                                                                    PWW)
                                                                  (Z.eqb v
                                                                    (cword s1
                                                                    a)))
                                                                (one a)
                                                                (fun s1 s3 ->
                                                                Some
                                                                (set_ph x a
                                                                  (if 
                                                                    raised s1
                                                                    s3 a
                                                                   then O
                                                                   else 
                                                                    S (S (S
                                                                    (S (S (S
                                                                    (S (S (S
                                                                    O)))))))))))
                                                         else if phis x a (S
                                                                   (S (S (S
                                                                   (S (S
                                                                   O))))))
                                                              then act_on s a
                                                                    (fun s1 ->
                                                                    (&&)
                                                                    (Z.eqb v
                                                                    (cword s1
                                                                    a))
                                                                    (negb
                                                                    ((&&)
                                                                    (cancel_due
                                                                    s1 a)
                                                                    (negb
                                                                    (unwinding
                                                                    (s1.unwm
                                                                    a))))))
                                                                    none_acts
                                                                    (fun _ _ ->
                                                                    Some
                                                                    (set_ph x
                                                                    a (S (S
                                                                    (S (S (S
                                                                    (S (S (S
                                                                    (S
                                                                    O)))))))))))
                                                              else if 
                                                                    phis x a
                                                                    (S (S (S
                                                                    (S (S (S
                                                                    (S
                                                                    O)))))))
                                                                   then 
                                                                    act_on s
                                                                    a
                                                                    (fun s1 ->
                                                                    Z.eqb v
                                                                    (cword s1
                                                                    a))
                                                                    none_acts
                                                                    (fun _ _ ->
                                                                    Some
                                                                    (set_ph x
                                                                    a (S (S
                                                                    (S (S (S
                                                                    (S (S (S
                                                                    (S
                                                                    O)))))))))))
                                                                   else 
                                                                    if 
                                                                    phis x a
                                                                    (S (S (S
                                                                    (S (S (S
                                                                    (S (S (S
                                                                    (S (S (S
                                                                    (S
                                                                    O)))))))))))))
                                                                    then 
                                                                    act_on s
                                                                    a
                                                                    (fun s1 ->
                                                                    Z.eqb v
                                                                    (cword s1
                                                                    a))
                                                                    none_acts
                                                                    (fun _ _ ->
                                                                    Some
                                                                    (set_ph x
                                                                    a O))
                                                                    else 
                                                                    if 
                                                                    (&&)
                                                                    (phis x a
                                                                    O)
                                                                    (at_pc s
                                                                    a PBody)
                                                                    then 
                                                                    act_on s
                                                                    a
                                                                    (fun s1 ->
                                                                    Z.eqb v
                                                                    (cword s1
                                                                    a))
                                                                    (fun s1 ->
                                                                    if 
                                                                    (&&)
                                                                    (Z.eqb v
                                                                    (Zpos
                                                                    XH))
                                                                    (negb
                                                                    (unwinding
                                                                    (s1.unwm
                                                                    a)))
                                                                    then 
                                                                    (CPoint
                                                                    a) :: []
                                                                    else [])
                                                                    (keep x)
                                                                    else None
                                             | _ -> None)
                                          | XH ->
                                            act_on s a (fun s1 ->
                                              (&&) (at_pc s1 a PT1)
                                                (eqb (s1.ipktm (c1 s1))
                                                  (zb v))) (one a) (keep x))
                                       | XO p5 ->
                                         (match p5 with
                                          | XI p6 ->
                                            (match p6 with
                                             | XH ->
                                               if phis x a O
                                               then act_on s a (fun s1 ->
                                                      (&&)
                                                        ((&&)
                                                          (at_pc s1 a PPark)
                                                          (is_co
                                                            (s1.kindm a)))
                                                        (eqb
                                                          (s1.tokm
                                                            (s1.jbm a))
                                                          (zb v))) (fun _ ->
                                                      if zb v
                                                      then (Step a) :: []
                                                      else []) (fun s1 _ ->
                                                      match bind_obj x.opk
                                                              (s1.jbm a) o with
                                                      | Some m ->
                                                        Some
                                                          (set_ph
                                                            (set_opk x m) a
                                                            (if zb v
                                                             then S (S (S O))
                                                             else S (S (S (S
                                                                    (S O))))))
                                                      | None -> None)
                                               else if phis x a (S (S (S (S
                                                         (S (S (S (S (S
                                                         O)))))))))
                                                    then Some { acts = [];
                                                           nxt =
                                                           (set_ph x a
                                                             (if zb v
                                                              then S (S (S (S
                                                                    (S (S (S
                                                                    (S (S (S
                                                                    O)))))))))
                                                              else S (S (S (S
                                                                    (S (S (S
                                                                    (S (S (S
                                                                    (S
                                                                    O)))))))))))) }
                                                    else None
                                             | _ -> None)
                                          | _ -> None)
                                       | XH ->
                                         act_on s a (fun s1 ->
                                           at_pc s1 a PBody) (fun _ ->
                                           (Finish (a, (Z.to_nat v))) :: [])
                                           (keep x))
                                    | XH ->
                                      act_on s a (fun s1 -> at_pc s1 a PDrop)
                                        (one a) (keep x))
                                 | XO p3 ->
                                   (match p3 with
                                    | XI p4 ->
                                      (match p4 with
                                       | XI p5 ->
                                         (match p5 with
                                          | XH ->
                                            act_on s a (fun s1 ->
                                              (&&) (at_pc s1 a PF1)
                                                (is_upanic (s1.unwm a)))
                                              none_acts (keep x)
                                          | _ -> None)
                                       | XO p5 ->
                                         (match p5 with
                                          | XI p6 ->
                                            (match p6 with
                                             | XH ->
                                               if phis x a (S (S (S (S (S
                                                    O)))))
                                               then act_on s a (fun s1 ->
                                                      (&&)
                                                        ((&&)
                                                          (at_pc s1 a PPark)
                                                          (eqb
                                                            (s1.tokm
                                                              (s1.jbm a))
                                                            (zb v)))
                                                        (Z.eqb
                                                          (x.opk (s1.jbm a))
                                                          o)) (fun _ ->
                                                      if zb v
                                                      then (Step a) :: []
                                                      else []) (fun _ _ ->
                                                      Some
                                                      (set_ph x a
                                                        (if zb v
                                                         then O
                                                         else S (S O))))
                                               else if phis x a (S (S (S (S
                                                         (S (S (S (S (S (S (S
                                                         O)))))))))))
                                                    then Some { acts = [];
                                                           nxt =
                                                           (set_ph x a O) }
                                                    else None
                                             | _ -> None)
                                          | XO _ -> None
                                          | XH ->
                                            act_on s a (fun s1 ->
                                              (&&) (at_pc s1 a PW0)
                                                (eqb (s1.jstm (c1 s1))
                                                  (zb v))) (one a)
                                              (fun s1 _ ->
                                              match bind_obj x.ojs (c1 s1) o with
                                              | Some m -> Some (set_ojs x m)
                                              | None -> None))
                                       | XH ->
                                         act_on s a (fun s1 ->
                                           (&&)
                                             ((&&) (at_pc s1 a PPark)
                                               (negb (is_co (s1.kindm a))))
                                             (phis x a O)) (one a)
                                           (fun s1 s3 ->
                                           match bind_obj x.opk (s1.jbm a) o with
                                           | Some m ->
                                             Some
                                               (set_ph (set_opk x m) a
                                                 (if at_pc s3 a PWW
                                                  then S O
                                                  else S (S (S (S (S (S (S (S
                                                         (S (S (S (S
                                                         O)))))))))))))
                                           | None -> None))
                                    | XO p4 ->
                                      (match p4 with
                                       | XI p5 ->
                                         (match p5 with
                                          | XI _ -> None
                                          | XO p6 ->
                                            (match p6 with
                                             | XH ->
                                               if (&&) (Nat.eqb (x.nest a) O)
                                                    ((||) (at_pc s a PJ0)
                                                      (at_pc s a PDrop))
                                               then act_on s a (fun s1 ->
                                                      (&&)
                                                        ((&&)
                                                          (at_pc s1 a PJ0)
                                                          (is_co
                                                            (s1.kindm a)))
                                                        (Z.eqb v
                                                          (cword s1 a)))
                                                      (one a) (keep x)
                                               else if Z.eqb v
                                                         (cwn s (x.nest a) a)
                                                    then Some { acts = [];
                                                           nxt =
                                                           (set_nest x a (S
                                                             (x.nest a))) }
                                                    else None
                                             | _ -> None)
                                          | XH ->
                                            act_on s a (fun s1 ->
                                              (&&)
                                                ((||) (at_pc s1 a PF1)
                                                  (at_pc s1 a PF2))
                                                (negb (zb v))) (fun s1 ->
                                              if at_pc s1 a PF1
                                              then (Step a) :: ((Step
                                                     a) :: [])
                                              else (Step a) :: [])
                                              (fun _ _ ->
                                              match bind_obj x.ojs a o with
                                              | Some m -> Some (set_ojs x m)
                                              | None -> None))
                                       | XO _ -> None
                                       | XH ->
                                         (match x.pmap (Z.to_nat o) with
                                          | O -> None
                                          | S c ->
                                            act_on s a (fun s1 ->
                                              at_pc s1 a PBody) (fun _ ->
                                              (Join (a, c)) :: []) (keep x)))
                                    | XH ->
                                      act_on s a (fun s1 -> at_pc s1 a PBody)
                                        (fun _ -> (Open a) :: []) (keep x))
                                 | XH ->
                                   let n = s.nexta in
                                   act_on s a (fun s1 -> at_pc s1 a PBody)
                                     (fun _ -> (Spawn (a,
                                     (Z.to_nat v))) :: []) (fun _ _ -> Some
                                     (set_pmap x
                                       (upd x.pmap (Z.to_nat o) (S n)))))
                              | XH -> None)
                           | _ -> None)
                        | None -> skip x))
                  | XH ->
                    (match task x ta with
                     | Some _ -> None
                     | None ->
                       let n = s.nexta in
                       Some { acts = ((Root
                       (if zb v then KCo else KThread)) :: []); nxt =
                       (set_cmap
                         (set_pmap (set_amap x (upd x.amap ta (S n)))
                           (upd x.pmap O (S n))) ((o, n) :: x.cmap)) }))
               | _ ->
                 (match task x ta with
                  | Some a ->
                    let c1 = fun s1 -> s1.jcm a in
                    (match code with
                     | Zpos p ->
                       (match p with
                        | XI p0 ->
                          (match p0 with
                           | XI p1 ->
                             (match p1 with
                              | XI p2 ->
                                (match p2 with
                                 | XI p3 ->
                                   (match p3 with
                                    | XH ->
                                      act_on s a (fun s1 ->
                                        (&&) (at_pc s1 a PRet) (zb v))
                                        (one a) (keep x)
                                    | _ -> None)
                                 | XO p3 ->
                                   (match p3 with
                                    | XH ->
                                      act_on s a (fun s1 ->
                                        (&&)
                                          ((&&) (at_pc s1 a PW3)
                                            (eqb
                                              (is_some (s1.jwakem (c1 s1)))
                                              (zb v)))
                                          (Z.eqb (x.ojw (c1 s1)) o)) 
                                        (one a) (keep x)
                                    | _ -> None)
                                 | XH -> None)
                              | XO p2 ->
                                (match p2 with
                                 | XI p3 ->
                                   (match p3 with
                                    | XI _ -> None
                                    | XO p4 ->
                                      (match p4 with
                                       | XH ->
                                         if negb (Nat.eqb (x.nest a) O)
                                         then if Z.eqb v (cwn s (x.nest a) a)
                                              then skip x
                                              else None
                                         else if phis x a (S (S O))
                                              then act_on s a (fun s1 ->
                                                     (&&) (at_pc s1 a PPark)
                                                       (Z.eqb v (cword s1 a)))
                                                     (one a) (fun s1 s3 ->
                                                     Some
                                                     (set_ph x a
                                                       (if s1.tokm (s1.jbm a)
                                                        then S (S (S (S (S (S
                                                               O)))))
                                                        else if at_pc s3 a
                                                                  PWW
                                                             then S (S (S (S
                                                                    (S (S (S
                                                                    (S
                                                                    O)))))))
                                                             else if 
                                                                    raised s1
                                                                    s3 a
                                                                  then 
                                                                    S (S (S
                                                                    (S (S (S
                                                                    (S (S (S
                                                                    (S (S (S
                                                                    (S
                                                                    O))))))))))))
                                                                  else 
                                                                    S (S (S
                                                                    (S (S (S
                                                                    (S
                                                                    O)))))))))
                                              else act_on s a (fun s1 ->
                                                     Z.eqb v (cword s1 a))
                                                     none_acts (keep x)
                                       | _ -> None)
                                    | XH ->
                                      act_on s a (fun s1 ->
                                        (&&) (at_pc s1 a PT2)
                                          (eqb (is_some (s1.panm (c1 s1)))
                                            (zb v))) (one a) (keep x))
                                 | XO p3 ->
                                   (match p3 with
                                    | XI p4 ->
                                      (match p4 with
                                       | XH ->
                                         if (||) (phis x a (S (S (S O))))
                                              (phis x a (S (S (S (S (S (S (S
                                                (S (S (S O)))))))))))
                                         then Some { acts = []; nxt =
                                                (set_ph x a O) }
                                         else None
                                       | _ -> None)
                                    | _ -> None)
                                 | XH -> None)
                              | XH ->
                                act_on s a (fun s1 -> at_pc s1 a PBody)
                                  (fun _ -> (Panic (a, (Z.to_nat o))) :: [])
                                  (keep x))
                           | XO p1 ->
                             (match p1 with
                              | XI p2 ->
                                (match p2 with
                                 | XI _ -> None
                                 | XO p3 ->
                                   (match p3 with
                                    | XI p4 ->
                                      (match p4 with
                                       | XH ->
                                         act_on s a (fun s1 ->
                                           (&&) (at_pc s1 a PF4)
                                             (is_co
                                               (s1.kindm
                                                 (s1.bownerm (s1.awm a)))))
                                           (one a) (fun s1 _ ->
                                           match bind_obj x.opk (s1.awm a) o with
                                           | Some m -> Some (set_opk x m)
                                           | None -> None)
                                       | _ -> None)
                                    | XO _ -> None
                                    | XH ->
                                      act_on s a (fun s1 -> at_pc s1 a PW1)
                                        (one a) (fun s1 _ ->
                                        match bind_obj x.ojw (c1 s1) o with
                                        | Some m -> Some (set_ojw x m)
                                        | None -> None))
                                 | XH ->
                                   if phis x a (S O)
                                   then act_on s a (fun s1 ->
                                          (&&) ((&&) (at_pc s1 a PWW) (zb v))
                                            (Z.eqb (x.opk (s1.jbm a)) o))
                                          (one a) (fun _ _ -> Some
                                          (set_ph x a O))
                                   else if phis x a (S (S (S (S (S (S (S (S
                                             (S (S (S (S O))))))))))))
                                        then act_on s a (fun _ -> zb v)
                                               none_acts (fun _ _ -> Some
                                               (set_ph x a O))
                                        else None)
                              | XO p2 ->
                                (match p2 with
                                 | XI p3 ->
                                   (match p3 with
                                    | XI _ -> None
                                    | XO p4 ->
                                      (match p4 with
                                       | XH ->
                                         (match x.nest a with
                                          | O ->
                                            act_on s a (fun s1 ->
                                              (&&) (at_pc s1 a PEn)
                                                (Z.eqb v (cword s1 a)))
                                              (one a) (keep x)
                                          | S n ->
                                            if Z.eqb v (cwn s (S n) a)
                                            then Some { acts = []; nxt =
                                                   (set_nest x a n) }
                                            else None)
                                       | _ -> None)
                                    | XH ->
                                      act_on s a (fun s1 ->
                                        (&&) (at_pc s1 a PF3)
                                          (eqb (is_some (s1.jwakem a))
                                            (zb v))) (one a) (fun _ _ ->
                                        match bind_obj x.ojw a o with
                                        | Some m -> Some (set_ojw x m)
                                        | None -> None))
                                 | XO _ -> None
                                 | XH ->
                                   (match x.pmap (Z.to_nat o) with
                                    | O -> None
                                    | S c ->
                                      act_on s a (fun s1 ->
                                        (&&)
                                          ((&&) (at_pc s1 a PBody)
                                            (Nat.eqb (s1.gotm c) (S O)))
                                          (Z.eqb (Z.of_nat (s1.cvalm c)) v))
                                        none_acts (keep x)))
                              | XH ->
                                act_on s a (fun s1 -> at_pc s1 a PBody)
                                  (fun _ -> (Close a) :: []) (keep x))
                           | XH -> None)
                        | XO p0 ->
                          (match p0 with
                           | XI p1 ->
                             (match p1 with
                              | XI p2 ->
                                (match p2 with
                                 | XI p3 ->
                                   (match p3 with
                                    | XH ->
                                      act_on s a (fun s1 ->
                                        (&&) (at_pc s1 a PF1)
                                          (negb (unwinding (s1.unwm a))))
                                        none_acts (keep x)
                                    | _ -> None)
                                 | XO p3 ->
                                   (match p3 with
                                    | XH ->
                                      act_on s a (fun s1 ->
                                        (&&)
                                          ((&&) (at_pc s1 a PW2)
                                            (eqb (s1.jstm (c1 s1)) (zb v)))
                                          (Z.eqb (x.ojs (c1 s1)) o)) 
                                        (one a) (keep x)
                                    | _ -> None)
                                 | XH ->
                                   act_on s a (fun s1 ->
                                     (&&) (at_pc s1 a PF4)
                                       (negb
                                         (is_co
                                           (s1.kindm (s1.bownerm (s1.awm a))))))
                                     (one a) (fun s1 _ ->
                                     match bind_obj x.opk (s1.awm a) o with
                                     | Some m -> Some (set_opk x m)
                                     | None -> None))
                              | XO p2 ->
                                (match p2 with
                                 | XI p3 ->
                                   (match p3 with
                                    | XI _ -> None
                                    | XO p4 ->
                                      (match p4 with
                                       | XH ->
                                         if negb (Nat.eqb (x.nest a) O)
                                         then if Z.eqb v (cwn s (x.nest a) a)
                                              then skip x
                                              else None
                                         else if at_pc s a PCk
                                              then act_on s a (fun s1 ->
                                                     Z.eqb v (cword s1 a))
                                                     (one a) (keep x)
                                              else if phis x a (S (S (S (S (S
                                                        (S (S (S O))))))))
                                                   then act_on s a (fun s1 ->
                                                          (&&)
                                                            (at_pc s1 a PWW)
                                                            (Z.eqb v
                                                              (cword s1 a)))
                                                          (one a)
                                                          (fun s1 s3 -> Some
                                                          (set_ph x a
                                                            (if raised s1 s3
                                                                  a
                                                             then O
                                                             else S (S (S (S
                                                                    (S (S (S
                                                                    (S (S
                                                                    O)))))))))))
                                                   else if phis x a (S (S (S
                                                             (S (S (S O))))))
                                                        then act_on s a
                                                               (fun s1 ->
                                                               (&&)
                                                                 (Z.eqb v
                                                                   (cword s1
                                                                    a))
                                                                 (negb
                                                                   ((&&)
                                                                    (cancel_due
                                                                    s1 a)
                                                                    (negb
                                                                    (unwinding
                                                                    (s1.unwm
                                                                    a))))))
                                                               none_acts
                                                               (fun _ _ ->
                                                               Some
                                                               (set_ph x a (S
                                                                 (S (S (S (S
                                                                 (S (S (S (S
                                                                 O)))))))))))
                                                        else if phis x a (S
                                                                  (S (S (S (S
                                                                  (S (S
                                                                  O)))))))
                                                             then act_on s a
                                                                    (fun s1 ->
                                                                    Z.eqb v
                                                                    (cword s1
                                                                    a))
                                                                    none_acts
                                                                    (fun _ _ ->
                                                                    Some
                                                                    (set_ph x
                                                                    a (S (S
                                                                    (S (S (S
                                                                    (S (S (S
                                                                    (S
                                                                    O)))))))))))
                                                             else if 
                                                                    phis x a
                                                                    (S (S (S
                                                                    (S (S (S
                                                                    (S (S (S
                                                                    (S (S (S
                                                                    (S
                                                                    O)))))))))))))
                                                                  then 
                                                                    act_on s
                                                                    a
                                                                    (fun s1 ->
                                                                    Z.eqb v
                                                                    (cword s1
                                                                    a))
                                                                    none_acts
                                                                    (fun _ _ ->
                                                                    Some
                                                                    (set_ph x
                                                                    a O))
                                                                  else 
                                                                    if 
                                                                    (&&)
                                                                    (phis x a
                                                                    O)
                                                                    (at_pc s
                                                                    a PBody)
                                                                    then 
                                                                    act_on s
                                                                    a
                                                                    (fun s1 ->
                                                                    Z.eqb v
                                                                    (cword s1
                                                                    a))
                                                                    (fun s1 ->
                                                                    if 
                                                                    (&&)
                                                                    (Z.eqb v
                                                                    (Zpos
                                                                    XH))
                                                                    (negb
                                                                    (unwinding
                                                                    (s1.unwm
                                                                    a)))
                                                                    then 
                                                                    (CPoint
                                                                    a) :: []
                                                                    else [])
                                                                    (keep x)
                                                                    else None
                                       | _ -> None)
                                    | XH ->
                                      act_on s a (fun s1 ->
                                        (&&) (at_pc s1 a PT1)
                                          (eqb (s1.ipktm (c1 s1)) (zb v)))
                                        (one a) (keep x))
                                 | XO p3 ->
                                   (match p3 with
                                    | XI p4 ->
                                      (match p4 with
                                       | XH ->
                                         if phis x a O
                                         then act_on s a (fun s1 ->
                                                (&&)
                                                  ((&&) (at_pc s1 a PPark)
                                                    (is_co (s1.kindm a)))
                                                  (eqb (s1.tokm (s1.jbm a))
                                                    (zb v))) (fun _ ->
                                                if zb v
                                                then (Step a) :: []
                                                else []) (fun s1 _ ->
                                                match bind_obj x.opk
                                                        (s1.jbm a) o with
                                                | Some m ->
                                                  Some
                                                    (set_ph (set_opk x m) a
                                                      (if zb v
                                                       then S (S (S O))
                                                       else S (S (S (S (S
                                                              O))))))
                                                | None -> None)
                                         else if phis x a (S (S (S (S (S (S
                                                   (S (S (S O)))))))))
                                              then Some { acts = []; nxt =
                                                     (set_ph x a
                                                       (if zb v
                                                        then S (S (S (S (S (S
                                                               (S (S (S (S
                                                               O)))))))))
                                                        else S (S (S (S (S (S
                                                               (S (S (S (S (S
                                                               O)))))))))))) }
                                              else None
                                       | _ -> None)
                                    | _ -> None)
                                 | XH ->
                                   act_on s a (fun s1 -> at_pc s1 a PBody)
                                     (fun _ -> (Finish (a,
                                     (Z.to_nat v))) :: []) (keep x))
                              | XH ->
                                act_on s a (fun s1 -> at_pc s1 a PDrop)
                                  (one a) (keep x))
                           | XO p1 ->
                             (match p1 with
                              | XI p2 ->
                                (match p2 with
                                 | XI p3 ->
                                   (match p3 with
                                    | XH ->
                                      act_on s a (fun s1 ->
                                        (&&) (at_pc s1 a PF1)
                                          (is_upanic (s1.unwm a))) none_acts
                                        (keep x)
                                    | _ -> None)
                                 | XO p3 ->
                                   (match p3 with
                                    | XI p4 ->
                                      (match p4 with
                                       | XH ->
                                         if phis x a (S (S (S (S (S O)))))
                                         then act_on s a (fun s1 ->
                                                (&&)
                                                  ((&&) (at_pc s1 a PPark)
                                                    (eqb (s1.tokm (s1.jbm a))
                                                      (zb v)))
                                                  (Z.eqb (x.opk (s1.jbm a))
                                                    o)) (fun _ ->
                                                if zb v
                                                then (Step a) :: []
                                                else []) (fun _ _ -> Some
                                                (set_ph x a
                                                  (if zb v
                                                   then O
                                                   else S (S O))))
                                         else if phis x a (S (S (S (S (S (S
                                                   (S (S (S (S (S
                                                   O)))))))))))
                                              then Some { acts = []; nxt =
                                                     (set_ph x a O) }
                                              else None
                                       | _ -> None)
                                    | XO _ -> None
                                    | XH ->
                                      act_on s a (fun s1 ->
                                        (&&) (at_pc s1 a PW0)
                                          (eqb (s1.jstm (c1 s1)) (zb v)))
                                        (one a) (fun s1 _ ->
                                        match bind_obj x.ojs (c1 s1) o with
                                        | Some m -> Some (set_ojs x m)
                                        | None -> None))
                                 | XH ->
                                   act_on s a (fun s1 ->
                                     (&&)
                                       ((&&) (at_pc s1 a PPark)
                                         (negb (is_co (s1.kindm a))))
                                       (phis x a O)) (one a) (fun s1 s3 ->
                                     match bind_obj x.opk (s1.jbm a) o with
                                     | Some m ->
                                       Some
                                         (set_ph (set_opk x m) a
                                           (if at_pc s3 a PWW
                                            then S O
                                            else S (S (S (S (S (S (S (S (S (S
                                                   (S (S O)))))))))))))
                                     | None -> None))
                              | XO p2 ->
                                (match p2 with
                                 | XI p3 ->
                                   (match p3 with
                                    | XI _ -> None
                                    | XO p4 ->
                                      (match p4 with
                                       | XH ->
                                         if (&&) (Nat.eqb (x.nest a) O)
                                              ((||) (at_pc s a PJ0)
                                                (at_pc s a PDrop))
                                         then act_on s a (fun s1 ->
                                                (&&)
                                                  ((&&) (at_pc s1 a PJ0)
                                                    (is_co (s1.kindm a)))
                                                  (Z.eqb v (cword s1 a)))
                                                (one a) (keep x)
                                         else if Z.eqb v (cwn s (x.nest a) a)
                                              then Some { acts = []; nxt =
                                                     (set_nest x a (S
                                                       (x.nest a))) }
                                              else None
                                       | _ -> None)
                                    | XH ->
                                      act_on s a (fun s1 ->
                                        (&&)
                                          ((||) (at_pc s1 a PF1)
                                            (at_pc s1 a PF2)) (negb (zb v)))
                                        (fun s1 ->
                                        if at_pc s1 a PF1
                                        then (Step a) :: ((Step a) :: [])
                                        else (Step a) :: []) (fun _ _ ->
                                        match bind_obj x.ojs a o with
                                        | Some m -> Some (set_ojs x m)
                                        | None -> None))
                                 | XO _ -> None
                                 | XH ->
                                   (match x.pmap (Z.to_nat o) with
                                    | O -> None
                                    | S c ->
                                      act_on s a (fun s1 -> at_pc s1 a PBody)
                                        (fun _ -> (Join (a, c)) :: [])
                                        (keep x)))
                              | XH ->
                                act_on s a (fun s1 -> at_pc s1 a PBody)
                                  (fun _ -> (Open a) :: []) (keep x))
                           | XH ->
                             let n = s.nexta in
                             act_on s a (fun s1 -> at_pc s1 a PBody)
                               (fun _ -> (Spawn (a, (Z.to_nat v))) :: [])
                               (fun _ _ -> Some
                               (set_pmap x (upd x.pmap (Z.to_nat o) (S n)))))
                        | XH -> None)
                     | _ -> None)
                  | None -> skip x))
            | _ :: _ -> None))))

(** val accept_ev : ast -> z list -> ast option **)

let accept_ev sx e =
  let (s, x) = sx in
  (match plan_ev s x e with
   | Some p ->
     (match steps s p.acts with
      | Some s' -> Some (s', p.nxt)
      | None -> None)
   | None -> None)

(** val monitors_ok : ast -> bool **)

let monitors_ok sx =
  let s = fst sx in
  forallb (fun c ->
    (&&) (implb (s.cleftm c) (negb (s.jstm c))) (Nat.leb (s.gotm c) (S O)))
    (seq O s.nexta)

(** val m_init0 : ast **)

let m_init0 =
  m_init

(** val m_accept : ast -> z list -> ast option **)

let m_accept =
  accept_ev

(** val m_final : ast -> bool **)

let m_final =
  monitors_ok
