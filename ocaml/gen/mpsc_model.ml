
(** val negb : bool -> bool **)

let negb = function
| true -> false
| false -> true

type nat =
| O
| S of nat

(** val app : 'a1 list -> 'a1 list -> 'a1 list **)

let rec app l m =
  match l with
  | [] -> m
  | a :: l1 -> a :: (app l1 m)

type comparison =
| Eq
| Lt
| Gt

(** val compOpp : comparison -> comparison **)

let compOpp = function
| Eq -> Eq
| Lt -> Gt
| Gt -> Lt

module Coq__1 = struct
 (** val add : nat -> nat -> nat **)
 let rec add n0 m =
   match n0 with
   | O -> m
   | S p0 -> S (add p0 m)
end
include Coq__1

(** val mul : nat -> nat -> nat **)

let rec mul n0 m =
  match n0 with
  | O -> O
  | S p0 -> add m (mul p0 m)

(** val eqb : bool -> bool -> bool **)

let eqb b1 b2 =
  if b1 then b2 else if b2 then false else true

module Nat =
 struct
  (** val eqb : nat -> nat -> bool **)

  let rec eqb n0 m =
    match n0 with
    | O -> (match m with
            | O -> true
            | S _ -> false)
    | S n' -> (match m with
               | O -> false
               | S m' -> eqb n' m')

  (** val leb : nat -> nat -> bool **)

  let rec leb n0 m =
    match n0 with
    | O -> true
    | S n' -> (match m with
               | O -> false
               | S m' -> leb n' m')

  (** val ltb : nat -> nat -> bool **)

  let ltb n0 m =
    leb (S n0) m
 end

(** val tl : 'a1 list -> 'a1 list **)

let tl = function
| [] -> []
| _ :: m -> m

type positive =
| XI of positive
| XO of positive
| XH

type n =
| N0
| Npos of positive

type z =
| Z0
| Zpos of positive
| Zneg of positive

module Pos =
 struct
  (** val succ : positive -> positive **)

  let rec succ = function
  | XI p0 -> XO (succ p0)
  | XO p0 -> XI p0
  | XH -> XO XH

  (** val add : positive -> positive -> positive **)

  let rec add x y =
    match x with
    | XI p0 ->
      (match y with
       | XI q -> XO (add_carry p0 q)
       | XO q -> XI (add p0 q)
       | XH -> XO (succ p0))
    | XO p0 ->
      (match y with
       | XI q -> XI (add p0 q)
       | XO q -> XO (add p0 q)
       | XH -> XI p0)
    | XH -> (match y with
             | XI q -> XO (succ q)
             | XO q -> XI q
             | XH -> XO XH)

  (** val add_carry : positive -> positive -> positive **)

  and add_carry x y =
    match x with
    | XI p0 ->
      (match y with
       | XI q -> XI (add_carry p0 q)
       | XO q -> XO (add_carry p0 q)
       | XH -> XI (succ p0))
    | XO p0 ->
      (match y with
       | XI q -> XO (add_carry p0 q)
       | XO q -> XI (add p0 q)
       | XH -> XO (succ p0))
    | XH ->
      (match y with
       | XI q -> XI (succ q)
       | XO q -> XO (succ q)
       | XH -> XI XH)

  (** val pred_double : positive -> positive **)

  let rec pred_double = function
  | XI p0 -> XI (XO p0)
  | XO p0 -> XI (pred_double p0)
  | XH -> XH

  (** val pred_N : positive -> n **)

  let pred_N = function
  | XI p0 -> Npos (XO p0)
  | XO p0 -> Npos (pred_double p0)
  | XH -> N0

  (** val mul : positive -> positive -> positive **)

  let rec mul x y =
    match x with
    | XI p0 -> add y (XO (mul p0 y))
    | XO p0 -> XO (mul p0 y)
    | XH -> y

  (** val compare_cont : comparison -> positive -> positive -> comparison **)

  let rec compare_cont r x y =
    match x with
    | XI p0 ->
      (match y with
       | XI q -> compare_cont r p0 q
       | XO q -> compare_cont Gt p0 q
       | XH -> Gt)
    | XO p0 ->
      (match y with
       | XI q -> compare_cont Lt p0 q
       | XO q -> compare_cont r p0 q
       | XH -> Gt)
    | XH -> (match y with
             | XH -> r
             | _ -> Lt)

  (** val compare : positive -> positive -> comparison **)

  let compare =
    compare_cont Eq

  (** val eqb : positive -> positive -> bool **)

  let rec eqb p0 q =
    match p0 with
    | XI p1 -> (match q with
                | XI q0 -> eqb p1 q0
                | _ -> false)
    | XO p1 -> (match q with
                | XO q0 -> eqb p1 q0
                | _ -> false)
    | XH -> (match q with
             | XH -> true
             | _ -> false)

  (** val testbit : positive -> n -> bool **)

  let rec testbit p0 n0 =
    match p0 with
    | XI p1 -> (match n0 with
                | N0 -> true
                | Npos n1 -> testbit p1 (pred_N n1))
    | XO p1 -> (match n0 with
                | N0 -> false
                | Npos n1 -> testbit p1 (pred_N n1))
    | XH -> (match n0 with
             | N0 -> true
             | Npos _ -> false)

  (** val iter_op : ('a1 -> 'a1 -> 'a1) -> positive -> 'a1 -> 'a1 **)

  let rec iter_op op p0 a =
    match p0 with
    | XI p1 -> op a (iter_op op p1 (op a a))
    | XO p1 -> iter_op op p1 (op a a)
    | XH -> a

  (** val to_nat : positive -> nat **)

  let to_nat x =
    iter_op Coq__1.add x (S O)

  (** val of_succ_nat : nat -> positive **)

  let rec of_succ_nat = function
  | O -> XH
  | S x -> succ (of_succ_nat x)
 end

module N =
 struct
  (** val testbit : n -> n -> bool **)

  let testbit a n0 =
    match a with
    | N0 -> false
    | Npos p0 -> Pos.testbit p0 n0
 end

module Z =
 struct
  (** val double : z -> z **)

  let double = function
  | Z0 -> Z0
  | Zpos p0 -> Zpos (XO p0)
  | Zneg p0 -> Zneg (XO p0)

  (** val succ_double : z -> z **)

  let succ_double = function
  | Z0 -> Zpos XH
  | Zpos p0 -> Zpos (XI p0)
  | Zneg p0 -> Zneg (Pos.pred_double p0)

  (** val pred_double : z -> z **)

  let pred_double = function
  | Z0 -> Zneg XH
  | Zpos p0 -> Zpos (Pos.pred_double p0)
  | Zneg p0 -> Zneg (XI p0)

  (** val pos_sub : positive -> positive -> z **)

  let rec pos_sub x y =
    match x with
    | XI p0 ->
      (match y with
       | XI q -> double (pos_sub p0 q)
       | XO q -> succ_double (pos_sub p0 q)
       | XH -> Zpos (XO p0))
    | XO p0 ->
      (match y with
       | XI q -> pred_double (pos_sub p0 q)
       | XO q -> double (pos_sub p0 q)
       | XH -> Zpos (Pos.pred_double p0))
    | XH ->
      (match y with
       | XI q -> Zneg (XO q)
       | XO q -> Zneg (Pos.pred_double q)
       | XH -> Z0)

  (** val add : z -> z -> z **)

  let add x y =
    match x with
    | Z0 -> y
    | Zpos x' ->
      (match y with
       | Z0 -> x
       | Zpos y' -> Zpos (Pos.add x' y')
       | Zneg y' -> pos_sub x' y')
    | Zneg x' ->
      (match y with
       | Z0 -> x
       | Zpos y' -> pos_sub y' x'
       | Zneg y' -> Zneg (Pos.add x' y'))

  (** val opp : z -> z **)

  let opp = function
  | Z0 -> Z0
  | Zpos x0 -> Zneg x0
  | Zneg x0 -> Zpos x0

  (** val sub : z -> z -> z **)

  let sub m n0 =
    add m (opp n0)

  (** val mul : z -> z -> z **)

  let mul x y =
    match x with
    | Z0 -> Z0
    | Zpos x' ->
      (match y with
       | Z0 -> Z0
       | Zpos y' -> Zpos (Pos.mul x' y')
       | Zneg y' -> Zneg (Pos.mul x' y'))
    | Zneg x' ->
      (match y with
       | Z0 -> Z0
       | Zpos y' -> Zneg (Pos.mul x' y')
       | Zneg y' -> Zpos (Pos.mul x' y'))

  (** val compare : z -> z -> comparison **)

  let compare x y =
    match x with
    | Z0 -> (match y with
             | Z0 -> Eq
             | Zpos _ -> Lt
             | Zneg _ -> Gt)
    | Zpos x' -> (match y with
                  | Zpos y' -> Pos.compare x' y'
                  | _ -> Gt)
    | Zneg x' ->
      (match y with
       | Zneg y' -> compOpp (Pos.compare x' y')
       | _ -> Lt)

  (** val leb : z -> z -> bool **)

  let leb x y =
    match compare x y with
    | Gt -> false
    | _ -> true

  (** val ltb : z -> z -> bool **)

  let ltb x y =
    match compare x y with
    | Lt -> true
    | _ -> false

  (** val eqb : z -> z -> bool **)

  let eqb x y =
    match x with
    | Z0 -> (match y with
             | Z0 -> true
             | _ -> false)
    | Zpos p0 -> (match y with
                  | Zpos q -> Pos.eqb p0 q
                  | _ -> false)
    | Zneg p0 -> (match y with
                  | Zneg q -> Pos.eqb p0 q
                  | _ -> false)

  (** val to_nat : z -> nat **)

  let to_nat = function
  | Zpos p0 -> Pos.to_nat p0
  | _ -> O

  (** val of_nat : nat -> z **)

  let of_nat = function
  | O -> Z0
  | S n1 -> Zpos (Pos.of_succ_nat n1)

  (** val pos_div_eucl : positive -> z -> z * z **)

  let rec pos_div_eucl a b =
    match a with
    | XI a' ->
      let (q, r) = pos_div_eucl a' b in
      let r' = add (mul (Zpos (XO XH)) r) (Zpos XH) in
      if ltb r' b
      then ((mul (Zpos (XO XH)) q), r')
      else ((add (mul (Zpos (XO XH)) q) (Zpos XH)), (sub r' b))
    | XO a' ->
      let (q, r) = pos_div_eucl a' b in
      let r' = mul (Zpos (XO XH)) r in
      if ltb r' b
      then ((mul (Zpos (XO XH)) q), r')
      else ((add (mul (Zpos (XO XH)) q) (Zpos XH)), (sub r' b))
    | XH -> if leb (Zpos (XO XH)) b then (Z0, (Zpos XH)) else ((Zpos XH), Z0)

  (** val div_eucl : z -> z -> z * z **)

  let div_eucl a b =
    match a with
    | Z0 -> (Z0, Z0)
    | Zpos a' ->
      (match b with
       | Z0 -> (Z0, a)
       | Zpos _ -> pos_div_eucl a' b
       | Zneg b' ->
         let (q, r) = pos_div_eucl a' (Zpos b') in
         (match r with
          | Z0 -> ((opp q), Z0)
          | _ -> ((opp (add q (Zpos XH))), (add b r))))
    | Zneg a' ->
      (match b with
       | Z0 -> (Z0, a)
       | Zpos _ ->
         let (q, r) = pos_div_eucl a' b in
         (match r with
          | Z0 -> ((opp q), Z0)
          | _ -> ((opp (add q (Zpos XH))), (sub b r)))
       | Zneg b' -> let (q, r) = pos_div_eucl a' (Zpos b') in (q, (opp r)))

  (** val modulo : z -> z -> z **)

  let modulo a b =
    let (_, r) = div_eucl a b in r

  (** val odd : z -> bool **)

  let odd = function
  | Z0 -> false
  | Zpos p0 -> (match p0 with
                | XO _ -> false
                | _ -> true)
  | Zneg p0 -> (match p0 with
                | XO _ -> false
                | _ -> true)

  (** val testbit : z -> z -> bool **)

  let testbit a = function
  | Z0 -> odd a
  | Zpos p0 ->
    (match a with
     | Z0 -> false
     | Zpos a0 -> Pos.testbit a0 (Npos p0)
     | Zneg a0 -> negb (N.testbit (Pos.pred_N a0) (Npos p0)))
  | Zneg _ -> false
 end

type ppc =
| PIdle
| PLoad
| PCas
| PWrite
| PReady
| PStore

type cpc =
| CIdle
| CTry
| CTail
| CSpin
| CCommit

type pst = { pp : ppc; lk : nat; li : nat; pv : nat }

type st = { tk : nat; ti : nat; tc : bool; sval : (nat -> nat option);
            srdy : (nat -> bool); hidx : nat; p : (nat -> pst); cp : 
            cpc; cv : nat; saw : bool; rv : (nat -> nat); absq : nat list;
            bad_none : bool; bad_fifo : bool }

(** val upd : (nat -> 'a1) -> nat -> 'a1 -> nat -> 'a1 **)

let upd f i v j =
  if Nat.eqb j i then v else f j

(** val isnil : 'a1 list -> bool **)

let isnil = function
| [] -> true
| _ :: _ -> false

type action =
| Push of nat * nat
| PStep of nat
| Pop
| CStep

(** val step : nat -> st -> action -> st option **)

let step b s = function
| Push (p0, v) ->
  (match (s.p p0).pp with
   | PIdle ->
     Some { tk = s.tk; ti = s.ti; tc = s.tc; sval = s.sval; srdy = s.srdy;
       hidx = s.hidx; p =
       (upd s.p p0 { pp = PLoad; lk = O; li = O; pv = v }); cp = s.cp; cv =
       s.cv; saw = s.saw; rv = s.rv; absq = s.absq; bad_none = s.bad_none;
       bad_fifo = s.bad_fifo }
   | _ -> None)
| PStep p0 ->
  let x = s.p p0 in
  (match x.pp with
   | PIdle -> None
   | PLoad ->
     Some { tk = s.tk; ti = s.ti; tc = s.tc; sval = s.sval; srdy = s.srdy;
       hidx = s.hidx; p =
       (upd s.p p0 { pp = PCas; lk = s.tk; li = s.ti; pv = x.pv }); cp =
       s.cp; cv = s.cv; saw = s.saw; rv = s.rv; absq = s.absq; bad_none =
       s.bad_none; bad_fifo = s.bad_fifo }
   | PCas ->
     if (&&) ((&&) (Nat.eqb x.lk s.tk) (Nat.eqb x.li s.ti)) (negb s.tc)
     then let j = add (mul x.lk b) x.li in
          if Nat.ltb (S x.li) b
          then Some { tk = s.tk; ti = (S s.ti); tc = false; sval = s.sval;
                 srdy = s.srdy; hidx = s.hidx; p =
                 (upd s.p p0 { pp = PWrite; lk = x.lk; li = x.li; pv = x.pv });
                 cp = s.cp; cv = s.cv; saw = s.saw; rv = (upd s.rv j x.pv);
                 absq = (app s.absq (x.pv :: [])); bad_none = s.bad_none;
                 bad_fifo = s.bad_fifo }
          else Some { tk = s.tk; ti = s.ti; tc = true; sval = s.sval; srdy =
                 s.srdy; hidx = s.hidx; p =
                 (upd s.p p0 { pp = PWrite; lk = x.lk; li = x.li; pv = x.pv });
                 cp = s.cp; cv = s.cv; saw = s.saw; rv = (upd s.rv j x.pv);
                 absq = s.absq; bad_none = s.bad_none; bad_fifo = s.bad_fifo }
     else Some { tk = s.tk; ti = s.ti; tc = s.tc; sval = s.sval; srdy =
            s.srdy; hidx = s.hidx; p =
            (upd s.p p0 { pp = PCas; lk = s.tk; li = s.ti; pv = x.pv }); cp =
            s.cp; cv = s.cv; saw = s.saw; rv = s.rv; absq = s.absq;
            bad_none = s.bad_none; bad_fifo = s.bad_fifo }
   | PWrite ->
     let j = add (mul x.lk b) x.li in
     Some { tk = s.tk; ti = s.ti; tc = s.tc; sval =
     (upd s.sval j (Some x.pv)); srdy = s.srdy; hidx = s.hidx; p =
     (upd s.p p0 { pp = PReady; lk = x.lk; li = x.li; pv = x.pv }); cp =
     s.cp; cv = s.cv; saw = s.saw; rv = s.rv; absq = s.absq; bad_none =
     s.bad_none; bad_fifo = s.bad_fifo }
   | PReady ->
     let j = add (mul x.lk b) x.li in
     if Nat.ltb (S x.li) b
     then Some { tk = s.tk; ti = s.ti; tc = s.tc; sval = s.sval; srdy =
            (upd s.srdy j true); hidx = s.hidx; p =
            (upd s.p p0 { pp = PIdle; lk = x.lk; li = x.li; pv = x.pv });
            cp = s.cp; cv = s.cv; saw = s.saw; rv = s.rv; absq = s.absq;
            bad_none = s.bad_none; bad_fifo = s.bad_fifo }
     else Some { tk = s.tk; ti = s.ti; tc = s.tc; sval = s.sval; srdy =
            (upd s.srdy j true); hidx = s.hidx; p =
            (upd s.p p0 { pp = PStore; lk = x.lk; li = x.li; pv = x.pv });
            cp = s.cp; cv = s.cv; saw = s.saw; rv = s.rv; absq =
            (app s.absq (x.pv :: [])); bad_none = s.bad_none; bad_fifo =
            s.bad_fifo }
   | PStore ->
     Some { tk = (S x.lk); ti = O; tc = false; sval = s.sval; srdy = s.srdy;
       hidx = s.hidx; p =
       (upd s.p p0 { pp = PIdle; lk = x.lk; li = x.li; pv = x.pv }); cp =
       s.cp; cv = s.cv; saw = s.saw; rv = s.rv; absq = s.absq; bad_none =
       s.bad_none; bad_fifo = s.bad_fifo })
| Pop ->
  (match s.cp with
   | CIdle ->
     Some { tk = s.tk; ti = s.ti; tc = s.tc; sval = s.sval; srdy = s.srdy;
       hidx = s.hidx; p = s.p; cp = CTry; cv = O; saw = false; rv = s.rv;
       absq = s.absq; bad_none = s.bad_none; bad_fifo = s.bad_fifo }
   | _ -> None)
| CStep ->
  (match s.cp with
   | CIdle -> None
   | CTry ->
     if s.srdy s.hidx
     then Some { tk = s.tk; ti = s.ti; tc = s.tc; sval = s.sval; srdy =
            s.srdy; hidx = s.hidx; p = s.p; cp = CCommit; cv =
            (match s.sval s.hidx with
             | Some v -> v
             | None -> O); saw = s.saw; rv = s.rv; absq = s.absq; bad_none =
            s.bad_none; bad_fifo = s.bad_fifo }
     else Some { tk = s.tk; ti = s.ti; tc = s.tc; sval = s.sval; srdy =
            s.srdy; hidx = s.hidx; p = s.p; cp = CTail; cv = O; saw =
            ((||) s.saw (isnil s.absq)); rv = s.rv; absq = s.absq; bad_none =
            s.bad_none; bad_fifo = s.bad_fifo }
   | CTail ->
     if Nat.leb (add (mul s.tk b) s.ti) s.hidx
     then Some { tk = s.tk; ti = s.ti; tc = s.tc; sval = s.sval; srdy =
            s.srdy; hidx = s.hidx; p = s.p; cp = CIdle; cv = O; saw = s.saw;
            rv = s.rv; absq = s.absq; bad_none =
            ((||) s.bad_none (negb ((||) s.saw (isnil s.absq)))); bad_fifo =
            s.bad_fifo }
     else Some { tk = s.tk; ti = s.ti; tc = s.tc; sval = s.sval; srdy =
            s.srdy; hidx = s.hidx; p = s.p; cp = CSpin; cv = O; saw = s.saw;
            rv = s.rv; absq = s.absq; bad_none = s.bad_none; bad_fifo =
            s.bad_fifo }
   | CSpin ->
     if s.srdy s.hidx
     then Some { tk = s.tk; ti = s.ti; tc = s.tc; sval = s.sval; srdy =
            s.srdy; hidx = s.hidx; p = s.p; cp = CCommit; cv =
            (match s.sval s.hidx with
             | Some v -> v
             | None -> O); saw = s.saw; rv = s.rv; absq = s.absq; bad_none =
            s.bad_none; bad_fifo = s.bad_fifo }
     else Some s
   | CCommit ->
     Some { tk = s.tk; ti = s.ti; tc = s.tc; sval = s.sval; srdy = s.srdy;
       hidx = (S s.hidx); p = s.p; cp = CIdle; cv = s.cv; saw = s.saw; rv =
       s.rv; absq = (tl s.absq); bad_none = s.bad_none; bad_fifo =
       ((||) s.bad_fifo
         (negb (match s.absq with
                | [] -> false
                | v :: _ -> Nat.eqb v s.cv))) })

(** val init : st **)

let init =
  { tk = O; ti = O; tc = false; sval = (fun _ -> None); srdy = (fun _ ->
    false); hidx = O; p = (fun _ -> { pp = PIdle; lk = O; li = O; pv = O });
    cp = CIdle; cv = O; saw = false; rv = (fun _ -> O); absq = []; bad_none =
    false; bad_fifo = false }

(** val zidx : nat -> z -> nat **)

let zidx b w =
  Z.to_nat (Z.modulo w (Z.of_nat b))

(** val zclosing : z -> bool **)

let zclosing w =
  Z.testbit w (Zpos (XI (XI (XI (XI (XI XH))))))

(** val znz : z -> bool **)

let znz v =
  negb (Z.eqb v Z0)

(** val ppc_eqb : ppc -> ppc -> bool **)

let ppc_eqb a b =
  match a with
  | PIdle -> (match b with
              | PIdle -> true
              | _ -> false)
  | PLoad -> (match b with
              | PLoad -> true
              | _ -> false)
  | PCas -> (match b with
             | PCas -> true
             | _ -> false)
  | PWrite -> (match b with
               | PWrite -> true
               | _ -> false)
  | PReady -> (match b with
               | PReady -> true
               | _ -> false)
  | PStore -> (match b with
               | PStore -> true
               | _ -> false)

(** val cpc_eqb : cpc -> cpc -> bool **)

let cpc_eqb a b =
  match a with
  | CIdle -> (match b with
              | CIdle -> true
              | _ -> false)
  | CTry -> (match b with
             | CTry -> true
             | _ -> false)
  | CTail -> (match b with
              | CTail -> true
              | _ -> false)
  | CSpin -> (match b with
              | CSpin -> true
              | _ -> false)
  | CCommit -> (match b with
                | CCommit -> true
                | _ -> false)

(** val take : nat -> st -> bool -> action -> (st -> bool) -> st option **)

let take b s pre a post =
  if pre
  then (match step b s a with
        | Some s' -> if post s' then Some s' else None
        | None -> None)
  else None

(** val observe : st -> bool -> st option **)

let observe s = function
| true -> Some s
| false -> None

(** val accept_ev : nat -> st -> z list -> st option **)

let accept_ev b s = function
| [] -> None
| z0 :: l ->
  (match z0 with
   | Zpos p0 ->
     (match p0 with
      | XI p1 ->
        (match p1 with
         | XI p2 ->
           (match p2 with
            | XI _ -> None
            | XO p3 ->
              (match p3 with
               | XH ->
                 (match l with
                  | [] -> None
                  | _ :: l0 ->
                    (match l0 with
                     | [] -> None
                     | _ :: l1 ->
                       (match l1 with
                        | [] -> None
                        | v :: l2 ->
                          (match l2 with
                           | [] ->
                             take b s (cpc_eqb s.cp CSpin) CStep (fun s' ->
                               eqb (cpc_eqb s'.cp CCommit) (znz v))
                           | _ :: _ -> None))))
               | _ -> None)
            | XH ->
              (match l with
               | [] -> None
               | p3 :: l0 ->
                 (match l0 with
                  | [] -> None
                  | _ :: l1 ->
                    (match l1 with
                     | [] -> None
                     | _ :: l2 ->
                       (match l2 with
                        | [] ->
                          let p4 = Z.to_nat p3 in
                          take b s (ppc_eqb (s.p p4).pp PStore) (PStep p4)
                            (fun _ -> true)
                        | _ :: _ -> None)))))
         | XO p2 ->
           (match p2 with
            | XI p3 ->
              (match p3 with
               | XH ->
                 (match l with
                  | [] -> None
                  | _ :: l0 ->
                    (match l0 with
                     | [] -> None
                     | some :: l1 ->
                       (match l1 with
                        | [] -> None
                        | v :: l2 ->
                          (match l2 with
                           | [] ->
                             observe s
                               ((&&) (cpc_eqb s.cp CIdle)
                                 (Z.eqb (Z.of_nat s.cv)
                                   (if znz some then v else Z0)))
                           | _ :: _ -> None))))
               | _ -> None)
            | XO p3 ->
              (match p3 with
               | XH ->
                 (match l with
                  | [] -> None
                  | _ :: l0 ->
                    (match l0 with
                     | [] -> None
                     | _ :: l1 ->
                       (match l1 with
                        | [] -> None
                        | v :: l2 ->
                          (match l2 with
                           | [] ->
                             take b s (cpc_eqb s.cp CTry) CStep (fun s' ->
                               eqb (cpc_eqb s'.cp CCommit) (znz v))
                           | _ :: _ -> None))))
               | _ -> None)
            | XH ->
              (match l with
               | [] -> None
               | p3 :: l0 ->
                 (match l0 with
                  | [] -> None
                  | _ :: l1 ->
                    (match l1 with
                     | [] -> None
                     | _ :: l2 ->
                       (match l2 with
                        | [] ->
                          let p4 = Z.to_nat p3 in
                          take b s (ppc_eqb (s.p p4).pp PReady) (PStep p4)
                            (fun _ -> true)
                        | _ :: _ -> None)))))
         | XH ->
           (match l with
            | [] -> None
            | p2 :: l0 ->
              (match l0 with
               | [] -> None
               | _ :: l1 ->
                 (match l1 with
                  | [] -> None
                  | ok :: l2 ->
                    (match l2 with
                     | [] ->
                       let p3 = Z.to_nat p2 in
                       take b s (ppc_eqb (s.p p3).pp PCas) (PStep p3)
                         (fun s' ->
                         eqb (ppc_eqb (s'.p p3).pp PWrite) (znz ok))
                     | _ :: _ -> None)))))
      | XO p1 ->
        (match p1 with
         | XI p2 ->
           (match p2 with
            | XI p3 ->
              (match p3 with
               | XH ->
                 (match l with
                  | [] -> None
                  | p4 :: l0 ->
                    (match l0 with
                     | [] -> None
                     | _ :: l1 ->
                       (match l1 with
                        | [] -> None
                        | _ :: l2 ->
                          (match l2 with
                           | [] ->
                             observe s (ppc_eqb (s.p (Z.to_nat p4)).pp PIdle)
                           | _ :: _ -> None))))
               | _ -> None)
            | XO p3 ->
              (match p3 with
               | XH ->
                 (match l with
                  | [] -> None
                  | _ :: l0 ->
                    (match l0 with
                     | [] -> None
                     | _ :: l1 ->
                       (match l1 with
                        | [] -> None
                        | w :: l2 ->
                          (match l2 with
                           | [] ->
                             take b s
                               ((&&)
                                 ((&&) (cpc_eqb s.cp CTail)
                                   (Nat.eqb s.ti (zidx b w)))
                                 (eqb s.tc (zclosing w))) CStep (fun _ ->
                               true)
                           | _ :: _ -> None))))
               | _ -> None)
            | XH -> None)
         | XO p2 ->
           (match p2 with
            | XI p3 ->
              (match p3 with
               | XH ->
                 (match l with
                  | [] -> None
                  | _ :: l0 ->
                    (match l0 with
                     | [] -> None
                     | _ :: l1 ->
                       (match l1 with
                        | [] -> None
                        | v :: l2 ->
                          (match l2 with
                           | [] ->
                             take b s (cpc_eqb s.cp CCommit) CStep (fun s' ->
                               Z.eqb (Z.of_nat s'.hidx) v)
                           | _ :: _ -> None))))
               | _ -> None)
            | XO p3 ->
              (match p3 with
               | XH ->
                 (match l with
                  | [] -> None
                  | _ :: l0 ->
                    (match l0 with
                     | [] -> None
                     | _ :: l1 ->
                       (match l1 with
                        | [] -> None
                        | _ :: l2 ->
                          (match l2 with
                           | [] ->
                             take b s (cpc_eqb s.cp CIdle) Pop (fun _ -> true)
                           | _ :: _ -> None))))
               | _ -> None)
            | XH ->
              (match l with
               | [] -> None
               | p3 :: l0 ->
                 (match l0 with
                  | [] -> None
                  | _ :: l1 ->
                    (match l1 with
                     | [] -> None
                     | i :: l2 ->
                       (match l2 with
                        | [] ->
                          let p4 = Z.to_nat p3 in
                          take b s
                            ((&&) (ppc_eqb (s.p p4).pp PWrite)
                              (Z.eqb (Z.of_nat (s.p p4).li) i)) (PStep p4)
                            (fun _ -> true)
                        | _ :: _ -> None)))))
         | XH ->
           (match l with
            | [] -> None
            | p2 :: l0 ->
              (match l0 with
               | [] -> None
               | _ :: l1 ->
                 (match l1 with
                  | [] -> None
                  | w :: l2 ->
                    (match l2 with
                     | [] ->
                       let p3 = Z.to_nat p2 in
                       take b s
                         ((&&) (ppc_eqb (s.p p3).pp PLoad)
                           (eqb s.tc (zclosing w))) (PStep p3) (fun s' ->
                         Nat.eqb (s'.p p3).li (zidx b w))
                     | _ :: _ -> None)))))
      | XH ->
        (match l with
         | [] -> None
         | p1 :: l0 ->
           (match l0 with
            | [] -> None
            | _ :: l1 ->
              (match l1 with
               | [] -> None
               | v :: l2 ->
                 (match l2 with
                  | [] ->
                    let p2 = Z.to_nat p1 in
                    take b s ((&&) (ppc_eqb (s.p p2).pp PIdle) (Z.ltb Z0 v))
                      (Push (p2, (Z.to_nat v))) (fun _ -> true)
                  | _ :: _ -> None)))))
   | _ -> None)

(** val monitors_ok : st -> bool **)

let monitors_ok s =
  (&&) (negb s.bad_none) (negb s.bad_fifo)

(** val m_init : st **)

let m_init =
  init

(** val m_accept : st -> z list -> st option **)

let m_accept =
  accept_ev (S (S (S (S (S (S (S (S (S (S (S (S (S (S (S (S (S (S (S (S (S (S
    (S (S (S (S (S (S (S (S (S (S (S (S (S (S (S (S (S (S (S (S (S (S (S (S
    (S (S (S (S (S (S (S (S (S (S (S (S (S (S (S (S (S (S
    O))))))))))))))))))))))))))))))))))))))))))))))))))))))))))))))))

(** val m_final : st -> bool **)

let m_final =
  monitors_ok
