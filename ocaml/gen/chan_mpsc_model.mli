
val negb : bool -> bool

type nat =
| O
| S of nat

val option_map : ('a1 -> 'a2) -> 'a1 option -> 'a2 option

val fst : ('a1 * 'a2) -> 'a1

val snd : ('a1 * 'a2) -> 'a2

val app : 'a1 list -> 'a1 list -> 'a1 list

type comparison =
| Eq
| Lt
| Gt

val pred : nat -> nat

val add : nat -> nat -> nat

val eqb : bool -> bool -> bool

module Nat :
 sig
  val eqb : nat -> nat -> bool

  val eq_dec : nat -> nat -> bool
 end

val remove : ('a1 -> 'a1 -> bool) -> 'a1 -> 'a1 list -> 'a1 list

val flat_map : ('a1 -> 'a2 list) -> 'a1 list -> 'a2 list

val existsb : ('a1 -> bool) -> 'a1 list -> bool

val firstn : nat -> 'a1 list -> 'a1 list

type positive =
| XI of positive
| XO of positive
| XH

type n =
| N0
| Npos of positive

type z =
| Z0
| Zpos of positive
| Zneg of positive

module Pos :
 sig
  type mask =
  | IsNul
  | IsPos of positive
  | IsNeg
 end

module Coq_Pos :
 sig
  val succ : positive -> positive

  val add : positive -> positive -> positive

  val add_carry : positive -> positive -> positive

  val pred_double : positive -> positive

  type mask = Pos.mask =
  | IsNul
  | IsPos of positive
  | IsNeg

  val succ_double_mask : mask -> mask

  val double_mask : mask -> mask

  val double_pred_mask : positive -> mask

  val sub_mask : positive -> positive -> mask

  val sub_mask_carry : positive -> positive -> mask

  val mul : positive -> positive -> positive

  val compare_cont : comparison -> positive -> positive -> comparison

  val compare : positive -> positive -> comparison

  val eqb : positive -> positive -> bool

  val iter_op : ('a1 -> 'a1 -> 'a1) -> positive -> 'a1 -> 'a1

  val to_nat : positive -> nat

  val of_succ_nat : nat -> positive
 end

module N :
 sig
  val add : n -> n -> n

  val sub : n -> n -> n

  val compare : n -> n -> comparison

  val leb : n -> n -> bool

  val ltb : n -> n -> bool
 end

module Z :
 sig
  val double : z -> z

  val succ_double : z -> z

  val pred_double : z -> z

  val pos_sub : positive -> positive -> z

  val add : z -> z -> z

  val mul : z -> z -> z

  val eqb : z -> z -> bool

  val to_nat : z -> nat

  val to_N : z -> n

  val of_nat : nat -> z
 end

type val0 = nat * nat

type rpc =
| RIdle
| RStore
| RPop1
| RChk
| RPop2
| RClear
| RPark
| RWait
| RDeadline
| RPd0
| RPd1

type tctx =
| CTry
| CFirst
| CReg
| CFin

type api =
| ATry
| ARecv
| ATimed
| ADrop

type res =
| RNone
| ROk of val0
| REmpty
| RDisc
| RTimeout
| RCancel

type rsn =
| RU
| RT
| RC

type spc =
| SIdle
| SChk
| SPush
| STake
| SUnpark
| SAdd
| SSub

type hst =
| Unborn
| Alive
| Dead

type rcvr = { rp : rpc; rc : tctx; rapi : api; rb : nat; rco : bool;
              rres : res; rdata : res; ralive : bool; rdead : bool }

type sndr = { sp : spc; sw : nat; sto : nat; sst : hst; sres : bool;
              sdead : bool; sn : nat }

type blk = { tok : bool; parked : bool; reason : rsn option }

type st = { q : val0 list; slot : nat option; chans : nat; pdrop : bool;
            nextb : nat; r : rcvr; sd : (nat -> sndr); bk : (nat -> blk);
            sent : val0 list; rcvd : val0 list; drpd : val0 list;
            live : nat list; freed : bool }

val upd : (nat -> 'a1) -> nat -> 'a1 -> nat -> 'a1

val mk :
  val0 list -> nat option -> nat -> bool -> nat -> rcvr -> (nat -> sndr) ->
  (nat -> blk) -> val0 list -> val0 list -> val0 list -> nat list -> bool ->
  st

val fresh : blk

val rm : nat -> nat list -> nat list

val r_set : rcvr -> rpc -> tctx -> rcvr

val r_ret : rcvr -> res -> rcvr

val r_data : rcvr -> res -> rcvr

val r_empty : rcvr -> rcvr

val r_start : rcvr -> api -> bool -> rpc -> tctx -> bool -> rcvr

val r_reg : rcvr -> nat -> rcvr

val r_gone : rcvr -> rcvr

val s_pc : sndr -> spc -> sndr

val s_call : sndr -> spc -> nat -> bool -> sndr

val s_res : sndr -> spc -> bool -> sndr

val s_pushed : sndr -> sndr

val s_took : sndr -> nat -> sndr

val s_st : sndr -> spc -> hst -> sndr

val b_unpark : blk -> blk

val b_tok : blk -> bool -> blk

val b_park : blk -> blk

val b_fire : blk -> rsn -> blk

type action =
| TryRecv
| Recv of bool
| RecvTimeout of bool
| DropPort
| RStep
| RDl of bool
| Fire of rsn
| Send of nat
| Clone of nat * nat
| DropChan of nat
| SStep of nat
| Free

val is_idle : rcvr -> bool

val s_ready : sndr -> bool

val is0 : nat -> bool

val step : st -> action -> st option

val rcv0 : rcvr

val snd0 : hst -> sndr

val init : st

type aux = { started : bool; ract : nat; hof : (nat -> nat); ph : nat;
             opk : (nat -> z); qt : z; qh : z; nb : nat }

val aux0 : aux

type ast = st * aux

val set_ract : aux -> nat -> aux

val set_hof : aux -> nat -> nat -> aux

val set_ph : aux -> nat -> aux

val set_opk : aux -> (nat -> z) -> aux

val set_qt : aux -> z -> aux

val set_nb : aux -> nat -> aux

val set_qh : aux -> z -> aux

val rpc_eqb : rpc -> rpc -> bool

val spc_eqb : spc -> spc -> bool

val zb : z -> bool

val isnone : 'a1 option -> bool

val isnil : 'a1 list -> bool

val res_is : res -> z -> z -> bool

val bind_obj : (nat -> z) -> nat -> z -> (nat -> z) option

type plan = { acts : action list; post : (st -> bool); nxt : (st -> aux) }

val guard : bool -> plan option -> plan option

val ok : action list -> aux -> plan option

val skip : aux -> plan option

val at_r : st -> rpc -> bool

val at_s : st -> nat -> spc -> bool

val in_pop : st -> bool

val is_r : aux -> nat -> bool

val resume : st -> action list

val cancelled : st -> aux -> nat -> plan option

val plan_ev : st -> aux -> z list -> plan option

val vals_eqb : val0 list -> val0 list -> bool

val monitors_ok : ast -> bool

type tst = { base : st; now : n; dur : n; t0 : n; dl : n; rem : n; pdl : n }

type tact =
| Tick of n
| TRecvTimeout of bool * n
| A of action

val with_base : tst -> st -> tst

val is_first : rcvr -> bool

val at_park : rcvr -> bool

val at_wait : rcvr -> bool

val tstep : tst -> tact -> tst option

val tinit : tst

type tast = tst * aux

val ta_init : tast

val tick_to : tst -> n -> tst option

val tsteps : tst -> action list -> n -> tst option

val taccept_ev : tast -> z list -> tast option

val tbranch : tast -> z list -> tast list

val taccept1 : z list -> tast -> tast list

val taccept_evm : tast list -> z list -> tast list option

val tm_initm : tast list

val tmonitors_ok : tast -> bool

val tmonitors_okm : tast list -> bool

val m_init : tast list

val m_accept : tast list -> z list -> tast list option

val m_final : tast list -> bool
